"""C13 A modification that raises leaves the session exactly as it was (DESIGN 4-C13, Appendix A5).

(1) do/undo lemmas on the REAL Attribute.__set__ / Entity.set of a real loaded object whose key indexes are symbolic maps (arbitrary content,
    symbolic old / new key values): whenever the call raises, both index maps equal the original maps extensionally and the object's
    status, write bits, values and save-queue position equal the snapshot.                                               [proof]
(2) handler completeness on a real session (in-memory SQLite): every modification entry point, with every callee that takes part in the
    do/undo protocol allowed to fail at every call (callee contract: "raises => changed nothing"), and the naturally failing calls:
    on the exceptional exit the whole observable session state equals the snapshot.                                     [bounded: scenario set]"""
import copy, types, itertools, z3
from vf.verify import Contract, Case
from vf.inputs import Inputs, term, same
from vf.explore import cur, choose
from vf.effects import Patch, note
from vf.proxy import SymDict, ObjUniverse, ABSENT
from vf import logic as L
from pony import orm
from pony.orm import core

META = dict(
    level='proof',
    explanation='(1) symbolic index maps through the real Attribute.__set__ / Entity.set incl. their real undo closures: raise => maps, values, status, bits and save '
                'queue restored, for all map contents and all key values; (2) fault injection at every do/undo callee of every modification entry point on a real '
                'session: raise => whole session snapshot restored (bounded scenario set, counted separately)',
    trusted_base=['SymDict dict semantics on z3 arrays; representation invariant of the indexes assumed at entry (C11)',
                  'callee contract used for injection: a failing index / reverse-side function has changed nothing when it raises (proved for the index functions in C11)',
                  'snapshot = status, write bits, attribute values, collection contents + added/removed sets + count, save queue, key indexes, modified collections'],
    assumptions=['failures raised midway through a cascade are covered one injected fault per call (every call position), not combinations of several faults',
                 'scenario set of (2): the model and operations listed in the contract; BOUNDED'],
)
OBJ, OTHER = z3.IntVal(1), z3.IntVal(2)
K = z3.Int('k!any'); K2 = [z3.Int('k!any0'), z3.Int('k!any1')]
_M = None


def model():
    global _M
    if _M is None:
        db = orm.Database('sqlite', ':memory:')

        class Person(db.Entity):
            id = orm.PrimaryKey(int)
            name = orm.Required(str)
            email = orm.Optional(str, unique=True, nullable=True)
            u = orm.Optional(int, unique=True)
            a = orm.Optional(int)
            b = orm.Optional(int)
            c = orm.Optional(int)
            orm.composite_key(u, a)
            orm.composite_key(b, c)
            passport = orm.Optional('Passport')
            group = orm.Optional('Group')
            courses = orm.Set('Course')
            tags = orm.Set('Tag')          # reverse side required => cascade delete
            locker = orm.Optional('Locker')

        class Tag(db.Entity):
            id = orm.PrimaryKey(int)
            code = orm.Required(int, unique=True)
            owner = orm.Required(Person)

        class Passport(db.Entity):
            id = orm.PrimaryKey(int)
            person = orm.Required(Person)

        class Locker(db.Entity):
            id = orm.PrimaryKey(int)
            owner = orm.Optional(Person)

        class Group(db.Entity):
            id = orm.PrimaryKey(int)
            students = orm.Set(Person)

        class Course(db.Entity):
            id = orm.PrimaryKey(int)
            students = orm.Set(Person)

        # a cascade of two levels that ends in a one-to-one, next to a collection that refuses the delete
        class Folder(db.Entity):
            id = orm.PrimaryKey(int)
            notes = orm.Set('Note', cascade_delete=True)
            locks = orm.Set('Lock', cascade_delete=False)

        class Note(db.Entity):
            id = orm.PrimaryKey(int)
            folder = orm.Required(Folder)
            text = orm.Optional(str)
            attachment = orm.Optional('Attachment', cascade_delete=True)

        class Attachment(db.Entity):
            id = orm.PrimaryKey(int)
            note = orm.Required(Note)

        class Lock(db.Entity):
            id = orm.PrimaryKey(int)
            folder = orm.Required(Folder)
        db.generate_mapping(create_tables=True)
        with orm.db_session:
            g1 = Group(id=1); g2 = Group(id=2)
            c1 = Course(id=1); c2 = Course(id=2); c3 = Course(id=3)
            p1 = Person(id=1, name='p1', email='e1', u=10, a=1, b=1, c=1, group=g1, courses=[c1])
            p2 = Person(id=2, name='p2', email='e2', u=20, a=2, b=2, c=2, group=g1, courses=[c1, c2])
            p3 = Person(id=3, name='p3', u=30, a=3, b=3, c=3, group=g2, courses=[c2])
            p4 = Person(id=4, name='p4', u=40, a=4, b=4, c=4)
            Passport(id=1, person=p1)
            f1 = Folder(id=1); n20 = Note(id=20, folder=f1); Note(id=21, folder=f1); Lock(id=1, folder=f1)
            f2 = Folder(id=2); n30 = Note(id=30, folder=f2); Attachment(id=3, note=n30); Lock(id=2, folder=f2)
            Locker(id=1, owner=p1); Locker(id=2); Locker(id=3, owner=p2)
            Tag(id=1, code=100, owner=p1); Tag(id=2, code=200, owner=p1); Tag(id=3, code=300, owner=p3)
        _M = types.SimpleNamespace(db=db, Person=Person, Passport=Passport, Group=Group, Course=Course, Tag=Tag, Locker=Locker, Folder=Folder, Note=Note, Attachment=Attachment, Lock=Lock)
    return _M


def _reset_session():
    core.local.db2cache.clear(); core.local.db_context_counter = 0; core.local.db_session = None


# ================================================================== (1) symbolic do/undo lemmas
def _sym_session(M):
    """a real session with p1 loaded; its unique index on u and composite index (u, a) replaced by symbolic maps"""
    core.local.db_context_counter = 1
    cache = M.db._get_cache()
    p1 = M.Person[1]; p2 = M.Person[2]
    p1.u, p1.a, p1.b, p1.c, p2.u      # load
    return cache, p1, p2


def _lem_configs(tier):
    return [dict(fn=f, status=s) for f in ('Attribute.__set__', 'Entity.set') for s in ('loaded', 'modified')]


def _lem_case(cfg, values):
    I = Inputs(values)
    old_u, old_a, new_u = I.int('old_u'), I.int('old_a'), I.int('new_u')
    new_a = I.int('new_a') if cfg['fn'] == 'Entity.set' else None
    M0 = z3.Array('M0', z3.IntSort(), z3.IntSort())
    C0 = z3.Array('C0', z3.IntSort(), z3.IntSort(), z3.IntSort())
    kk = z3.Int('kk'); k0, k1 = z3.Int('kk0'), z3.Int('kk1')
    rng = lambda t: z3.And(t >= -2 ** 31, t <= 2 ** 31 - 1)          # declared type: 32-bit int attributes
    pre = list(I.pre) + [rng(term(x)) for x in (old_u, old_a, new_u) + ((new_a,) if new_a is not None else ())] + [
        z3.Select(M0, term(old_u)) == OBJ, z3.ForAll([kk], z3.Implies(z3.Select(M0, kk) == OBJ, kk == term(old_u))),
        z3.Select(C0, term(old_u), term(old_a)) == OBJ,
        z3.ForAll([k0, k1], z3.Implies(z3.Select(C0, k0, k1) == OBJ, z3.And(k0 == term(old_u), k1 == term(old_a))))]
    M = model()

    def setup(run): _reset_session()
    def teardown(run): _reset_session()

    def call():
        st = cur().state
        cache, p1, p2 = _sym_session(M)
        P = M.Person
        U = ObjUniverse([p1, p2])
        dm = SymDict(M0, 1, U, 'M'); dc = SymDict(C0, 2, U, 'C')
        cache.indexes[P.u] = dm
        cache.indexes[(P.u, P.a)] = dc
        p1._vals_[P.u] = old_u; p1._vals_[P.a] = old_a
        if cfg['status'] == 'modified':
            p1.name = 'renamed'                # already queued for saving
        st.update(dm=dm, dc=dc, p1=p1, cache=cache, snap=_obj_snap(p1), queue=list(cache.objects_to_save),
                  other_index=dict(cache.indexes[(P.b, P.c)]))
        try:
            if cfg['fn'] == 'Attribute.__set__':
                P.u.__set__(p1, new_u)
            else:
                p1.set(u=new_u, a=new_a)
        finally:
            st.update(snap2=_obj_snap(p1), queue2=list(cache.objects_to_save))
        return 'ok'
    inputs = dict(I.terms); inputs.update(M0=M0, C0=C0)
    return Case(call, inputs, pre, setup, teardown)


def _obj_snap(o):
    return (o._status_, o._wbits_, o._save_pos_, tuple((a.name, id(v) if not isinstance(v, (int, str, type(None))) else v) for a, v in sorted(o._vals_.items(), key=lambda kv: kv[0].name)))


def _lem_raise_restores(cfg, i, path):
    if path.outcome != 'exc': return None
    st = path.state
    maps = L.And(z3.Select(st['dm'].arr, K) == z3.Select(i['M0'], K), z3.Select(st['dc'].arr, *K2) == z3.Select(i['C0'], *K2))
    own = st['snap'] == st['snap2'] and [id(x) for x in st['queue']] == [id(x) for x in st['queue2']]
    return L.And(maps, bool(own), isinstance(path.value, core.CacheIndexError))


def _lem_raise_iff_conflict(cfg, i, path):
    """the call fails exactly when a new key value is held by another object"""
    new_u = i['new_u']; new_a = i.get('new_a', i['old_a']); old_u, old_a = i['old_u'], i['old_a']
    conflict_u = L.And(new_u != old_u, z3.Select(i['M0'], new_u) == OTHER)
    conflict_c = L.And(z3.Or(new_u != old_u, new_a != old_a), z3.Select(i['C0'], new_u, new_a) == OTHER)
    conflict = L.Or(conflict_u, conflict_c)
    return conflict if path.outcome == 'exc' else L.Not(conflict)


def _lem_success_view(cfg, i, path):
    if path.outcome != 'ret': return None
    st = path.state
    new_u = i['new_u']; new_a = i.get('new_a', i['old_a']); old_u, old_a = i['old_u'], i['old_a']
    wantM = z3.If(K == new_u, OBJ, z3.If(K == old_u, ABSENT, z3.Select(i['M0'], K)))
    keq = lambda a, b: z3.And(K2[0] == a, K2[1] == b)
    wantC = z3.If(keq(new_u, new_a), OBJ, z3.If(keq(old_u, old_a), ABSENT, z3.Select(i['C0'], *K2)))
    p1 = st['p1']; P = model().Person
    vals_ok = L.And(L.Eq(term(p1._vals_[P.u]), new_u), True if cfg['fn'] != 'Entity.set' else L.Eq(term(p1._vals_[P.a]), new_a))
    queued = p1._status_ == 'modified' and p1 in st['queue2']
    return L.And(z3.Select(st['dm'].arr, K) == wantM, z3.Select(st['dc'].arr, *K2) == wantC, vals_ok, bool(queued))


# ================================================================== (2) handler completeness with fault injection on a real session
class Injected(Exception):
    """failure of a callee that (by its contract) has changed nothing"""


def _setdata_snap(sd):
    if sd is None: return None
    return (tuple(sorted(repr(x) for x in sd)), tuple(sorted(repr(x) for x in (sd.added or ()))), tuple(sorted(repr(x) for x in (sd.removed or ()))),
            sd.count, sd.is_fully_loaded)


def session_snapshot(cache):
    objs = {}
    for o in cache.objects:
        vals = {}
        for a, v in (o._vals_ or {}).items():
            if isinstance(v, core.SetData): vals[a.name] = _setdata_snap(v)
            else: vals[a.name] = repr(v)
        objs[repr(o)] = (o._status_, o._wbits_, o._save_pos_, tuple(sorted(vals.items())))
    idx = {}
    for key, d in cache.indexes.items():
        kname = (key.entity.__name__, key.name) if hasattr(key, 'name') else tuple((a.entity.__name__, a.name) for a in key)     # (entity, attribute): pk indexes of different entities are different maps
        content = tuple(sorted((repr(k), repr(v)) for k, v in d.items()))
        if content: idx[repr(kname)] = content
    mc = {a.name: tuple(sorted(repr(o) for o in s)) for a, s in cache.modified_collections.items() if s}
    queue = tuple(repr(o) for o in cache.objects_to_save if o is not None)
    return dict(objects=objs, indexes=idx, modified_collections=mc, queue=queue)


INJECT = [('SessionCache', 'update_simple_index'), ('SessionCache', 'update_composite_index'), ('Attribute', 'update_reverse'),
          ('Set', 'reverse_add'), ('Set', 'reverse_remove'), ('Attribute', 'db_update_reverse')]


def _install_injection(p):
    """every call of a do/undo callee may fail (at most ONE injected fault per path: the first chosen one raises)"""
    def wrap(cls, name):
        real = getattr(cls, name)
        def f(*a, **k):
            st = cur().state
            if not st.get('injected') and st.get('armed') and choose(2, 'fault:%s.%s' % (cls.__name__, name)) == 1:
                st['injected'] = '%s.%s' % (cls.__name__, name)
                note('injected', st['injected'])
                raise Injected(st['injected'])
            return real(*a, **k)
        p.set(cls, name, f)
    for cn, name in INJECT:
        wrap(getattr(core, cn), name)


def _ops(M):
    P, PP, G, C = M.Person, M.Passport, M.Group, M.Course
    return {
        'assign unique (conflict)': lambda: setattr(P[1], 'u', 20),
        'assign unique (free)': lambda: setattr(P[1], 'u', 99),
        'assign email (conflict)': lambda: setattr(P[1], 'email', 'e2'),
        'assign composite part (conflict)': lambda: (setattr(P[1], 'b', 2), _arm(), setattr(P[1], 'c', 2)),
        'set unique ok + composite conflict': lambda: P[1].set(u=99, b=2, c=2),
        'set composite ok + unique conflict': lambda: P[1].set(b=7, c=7, u=20),
        'set relation + unique conflict': lambda: P[3].set(group=G[2], u=10),
        'set all free': lambda: P[1].set(u=98, a=8, b=8, c=8, group=G[2]),
        # every scalar argument repeats the current value (Entity.set drops them), the collection argument really changes: the undo must still know the object was not queued before
        'set with unchanged scalars and a collection change': lambda: P[1].set(name=P[1].name, a=P[1].a, u=P[1].u, courses=[C[3]]),
        'set with unchanged scalars, an unchanged relation and two collection changes': lambda: P[2].set(name=P[2].name, group=P[2].group, courses=[C[1], C[3]], tags=[]),
        'set with unchanged scalars only': lambda: P[1].set(name=P[1].name, a=P[1].a),
        # a composite key that becomes COMPLETE in the failing call (one part was None before): its registration must be undone too
        'set completes a composite key and replaces a collection (mixed)': lambda: (setattr(P[4], 'b', None), _arm(), P[4].set(b=9, courses=[C[1], C[3]])),
        'assignment completes a composite key, reverse side fails (mixed)': lambda: (setattr(P[3], 'c', None), _arm(), P[3].set(c=8, group=G[1], courses=[])),
        'create with a complete composite key and collections': lambda: P(id=9, name='x', b=9, c=9, courses=[C[1], C[2]], group=G[1]),
        'set with one changed scalar among unchanged ones and a collection change': lambda: P[1].set(name=P[1].name, a=77, courses=[C[2], C[3]]),
        'create with required 1-1 violation': lambda: PP(id=9, person=P[1]),
        'create with unique conflict': lambda: P(id=9, name='x', u=10),
        'create with composite conflict': lambda: P(id=9, name='x', b=1, c=1, group=G[2]),
        'create ok': lambda: P(id=9, name='x', u=77, a=7, b=7, c=7, group=G[2], courses=[C[1], C[3]]),
        'assign 1-1 steal': lambda: setattr(P[2], 'passport', PP[1]),
        'assign many-to-one': lambda: setattr(P[1], 'group', G[2]),
        'collection assign': lambda: setattr(G[2], 'students', [P[1], P[2], P[3]]),
        'collection add many': lambda: C[3].students.add([P[1], P[2]]),
        'collection remove mixed': lambda: (P[3].courses.add(C[1]), _arm(), C[1].students.remove([P[1], P[3]])),
        'collection replace mixed': lambda: (P[3].courses.add(C[1]), _arm(), setattr(C[1], 'students', [P[2], P[4]])),
        'collection replace mixed 2': lambda: (P[3].courses.add(C[1]), P[4].courses.add(C[1]), cur().state.__setitem__('n', M.Person(id=9, name='n')), _arm(),
                                              setattr(C[1], 'students', [P[2], cur().state['n']])),
        'collection clear': lambda: G[1].students.clear(),
        'delete with required dependent': lambda: P[1].delete(),
        'delete plain (cascades to tags)': lambda: P[3].delete(),
        'locker swap to free': lambda: setattr(P[1], 'locker', M.Locker[2]),
        'locker steal': lambda: setattr(P[1], 'locker', M.Locker[3]),
        'locker release': lambda: setattr(P[1], 'locker', None),
        'locker owner reassign': lambda: setattr(M.Locker[1], 'owner', P[2]),
        'tag move': lambda: setattr(M.Tag[1], 'owner', P[2]),
        'tag code conflict': lambda: setattr(M.Tag[1], 'code', 200),
        'delete course': lambda: C[1].delete(),
        'delete refused after cascading to a created object (mixed)': lambda: (M.Tag(id=9, code=900, owner=P[1]), _arm(), P[1].delete()),
        'delete refused after cascading to an object whose edit is the first pending write (mixed)': lambda: (setattr(M.Tag[1], 'code', 555), _arm(), P[1].delete()),
        'delete refused after cascading to two edited objects (mixed)': lambda: (setattr(P[2], 'name', 'zz'), setattr(M.Tag[1], 'code', 555), _arm(), P[1].delete()),
        'refused delete after a two-level cascade into a new one-to-one partner (mixed)': lambda: (_load_folder(M, 1), M.Attachment(id=7, note=M.Note[20]), _arm(), M.Folder[1].delete()),
        'refused delete after a two-level cascade into a loaded one-to-one partner (mixed)': lambda: (_load_folder(M, 2), _arm(), M.Folder[2].delete()),
        'refused delete after a two-level cascade, a note edited first (mixed)': lambda: (_load_folder(M, 1), setattr(M.Note[21], 'text', 'edited'), M.Attachment(id=7, note=M.Note[20]), _arm(), M.Folder[1].delete()),
        'delete a created object (mixed)': lambda: (cur().state.__setitem__('n', P(id=9, name='x', u=77, group=G[2], courses=[C[1]])), _arm(), cur().state['n'].delete()),
        'refused delete with pending collection changes (mixed)': lambda: (P[1].courses.remove(C[1]), P[1].courses.add(C[3]), _arm(), P[1].delete()),
        'set fails after replacing a collection that has pending changes (mixed)': lambda: (P[2].courses.add(C[3]), P[2].courses.remove(C[2]), _arm(), P[2].set(courses=[C[1]], u=10)),
        'constructor fails after linking to collections with pending changes (mixed)': lambda: (C[3].students.add(P[1]), C[1].students.remove(P[1]), _arm(),
                                                                                             P(id=9, name='x', u=10, courses=[C[1], C[3]])),
        'delete after a pending removal on a many-to-many collection (mixed)': lambda: (P[2].courses.remove(C[1]), _arm(), P[2].delete()),
        'set extends a collection that has a pending addition, then fails (mixed)': lambda: (P[4].courses.add(C[1]), _arm(), P[4].set(courses=[C[1], C[2]], u=10)),
        'delete cascades to created and loaded (mixed)': lambda: (M.Tag(id=9, code=900, owner=P[3]), _arm(), P[3].delete()),
    }


def _load_folder(M, k):
    """everything the delete will touch is loaded beforehand: loading is not a change"""
    f = M.Folder[k]
    return [(n.text, n.attachment and n.attachment.note) for n in f.notes], list(f.locks)


def _arm():
    """prefix operations above this call are part of the scenario's setup, not of the call under contract"""
    st = cur().state
    st['armed'] = True
    st['before'] = session_snapshot(st['cache'])


def _hc_configs(tier):
    return [dict(op=k) for k in _ops(model())]


def _hc_case(cfg, values):
    M = model()

    def setup(run):
        _reset_session()
        p = Patch(); run.state['patch'] = p
        _install_injection(p)

    def teardown(run):
        run.state['patch'].restore()
        try: orm.rollback()
        except Exception: pass
        _reset_session()

    def call():
        st = cur().state
        core.local.db_context_counter = 1
        cache = st['cache'] = M.db._get_cache()
        # load everything the operations touch, so that snapshots are comparable (loading is not a modification)
        for e in (M.Person, M.Passport, M.Group, M.Course, M.Tag, M.Locker):
            for o in e.select():
                for a in e._attrs_:
                    if a.is_collection: getattr(o, a.name).load()
                    else: getattr(o, a.name)
        op = _ops(M)[cfg['op']]
        if 'mixed' not in cfg['op'] and 'composite part' not in cfg['op']: _arm()
        try:
            op()
        finally:
            st['after'] = session_snapshot(cache)
        return 'ok'
    return Case(call, {}, [], setup, teardown)


def _hc_raise_restores(cfg, i, path):
    if path.outcome != 'exc': return None
    st = path.state
    if 'before' not in st: return False
    return st['before'] == st['after']


def _hc_exception_kind(cfg, i, path):
    if path.outcome != 'exc': return None
    if path.state.get('injected'): return isinstance(path.value, Injected)
    return isinstance(path.value, (core.CacheIndexError, core.ConstraintError, ValueError, TypeError))


def _hc_replay(cfg, values, doc):
    return None


# ------------------------------------------------------------------ a unique attribute that is LAZY and not loaded yet: a refused assignment has nothing stored to take back
_LM = None


def lazy_model():
    global _LM
    if _LM is None:
        db = orm.Database('sqlite', ':memory:')

        class Doc(db.Entity):
            id = orm.PrimaryKey(int)
            code = orm.Optional(str, unique=True, lazy=True, nullable=True)
            n = orm.Optional(int)
            shelf = orm.Optional('Shelf')

        class Shelf(db.Entity):
            id = orm.PrimaryKey(int)
            docs = orm.Set(Doc)
        db.generate_mapping(create_tables=True)
        with orm.db_session:
            s1 = Shelf(id=1); Shelf(id=2)
            Doc(id=1, code='x', n=1, shelf=s1); Doc(id=2, code='y', n=2, shelf=s1); Doc(id=3, n=3)
        _LM = types.SimpleNamespace(db=db, Doc=Doc, Shelf=Shelf)
    return _LM


_LAZY_OPS = {
    'assign the key another loaded object holds': lambda M: setattr(M.Doc[2], 'code', 'x'),
    'set: a scalar first, then the conflicting key': lambda M: M.Doc[2].set(n=50, code='x'),
    'set: the conflicting key, a scalar and a relation': lambda M: M.Doc[2].set(code='x', n=50, shelf=M.Shelf[2]),
    'set on an object whose key was NULL': lambda M: M.Doc[3].set(shelf=M.Shelf[1], code='x'),
    'assign after the attribute was loaded': lambda M: (M.Doc[2].code, setattr(M.Doc[2], 'code', 'x')),
    'assign a free key': lambda M: setattr(M.Doc[2], 'code', 'free'),
}


def _lz_configs(tier):
    return [dict(op=k, holder_loaded=h) for k in _LAZY_OPS for h in (True, False)]


def _lz_case(cfg, values):
    M = lazy_model()

    def teardown(run):
        try: orm.rollback()
        except Exception: pass
        _reset_session()

    def call():
        st = cur().state
        core.local.db_context_counter = 1
        cache = st['cache'] = M.db._get_cache()
        docs = list(M.Doc.select().order_by(M.Doc.id)); [list(s.docs) for s in M.Shelf.select()]
        if cfg['holder_loaded']: docs[0].code                          # Doc[1].code = 'x' is registered in the session's key index only once it was read
        if 'after the attribute was loaded' in cfg['op']: docs[1].code
        st['before'] = session_snapshot(cache)
        try: _LAZY_OPS[cfg['op']](M)
        finally: st['after'] = session_snapshot(cache)
        return 'accepted'
    return Case(call, {}, [], lambda run: _reset_session(), teardown)


def _lz_spec(cfg, i, path):
    st = path.state
    conflict = cfg['holder_loaded'] and 'free' not in cfg['op']          # a key the session does not know to be taken is accepted (the database decides at flush time)
    if path.outcome == 'ret': return not conflict
    return conflict and type(path.value) is core.CacheIndexError and st['before'] == st['after']


CONTRACTS = [
    Contract('do_undo_on_symbolic_indexes', ['pony.orm.core:Attribute.__set__', 'pony.orm.core:Entity.set', 'pony.orm.core:SessionCache.update_simple_index',
                                             'pony.orm.core:SessionCache.update_composite_index'], _lem_configs, _lem_case,
             [('raise_restores_both_index_maps_and_object', _lem_raise_restores), ('raises_iff_new_key_held_by_another_object', _lem_raise_iff_conflict),
              ('success_updates_exactly', _lem_success_view)],
             allowed_exc=(core.CacheIndexError,), replay=False,
             doc='real loaded object; unique index and composite index symbolic (arbitrary content); old and new key values symbolic'),
    Contract('unloaded_lazy_unique_attribute', ['pony.orm.core:Attribute.__set__', 'pony.orm.core:Entity.set', 'pony.orm.core:SessionCache.update_simple_index'], _lz_configs, _lz_case,
             [('refused_with_CacheIndexError_and_nothing_changed', _lz_spec)], level='bounded', allowed_exc=(core.CacheIndexError,),
             bound='6 assignments / set() calls on a lazy unique attribute that is not loaded (one control with it loaded), the holder of the key known to the session or not'),
    Contract('handlers_with_fault_injection',
             ['pony.orm.core:Attribute.__set__', 'pony.orm.core:Entity.set', 'pony.orm.core:Entity.__init__', 'pony.orm.core:Set.__set__', 'pony.orm.core:SetInstance.add',
              'pony.orm.core:SetInstance.remove', 'pony.orm.core:SetInstance.clear', 'pony.orm.core:Entity._delete_', 'pony.orm.core:Attribute.update_reverse',
              'pony.orm.core:Set.reverse_add', 'pony.orm.core:Set.reverse_remove'],
             _hc_configs, _hc_case, [('raise_restores_session_snapshot', _hc_raise_restores), ('only_expected_exceptions', _hc_exception_kind)],
             level='bounded', bound='37 operations on one model (unique, composite keys, 1-1 required, many-to-one, many-to-many); one injected callee failure per path at every call position',
             allowed_exc=(Injected, core.CacheIndexError, core.ConstraintError, ValueError, TypeError)),
]


def _share_index_contracts():
    """the undo entries that the handlers restore from are the postcondition of the index functions (C11): the contracts that fix them are run under C13 as well"""
    import sys
    m = sys.modules.get('contracts.c11')
    if m is not None and not hasattr(m, 'CONTRACTS'): return           # c11 is being imported and imports this module (it shares the handlers contract): it appends below itself
    from contracts import c11
    if not any(c.id == 'composite_index' for c in CONTRACTS): CONTRACTS.extend(c for c in c11.CONTRACTS if c.id in ('simple_index', 'composite_index'))


_share_index_contracts()
