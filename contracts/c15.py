"""C15 Deletion honours cascade rules and leaves no dangling references (DESIGN 4-C15): BOUNDED decision table, end to end on real SQLite with
foreign keys enforced.

For every relationship shape (one-to-many, one-to-one with the column on either side, many-to-many) x cascade_delete option (default / True / False)
x reverse side required or optional x dependents present or not x dependents loaded in the session or not x way of deleting (obj.delete(),
Query.delete(), Query.delete(bulk=True)) the real code runs on a freshly generated schema and the outcome is compared with the rule in the property:
  dependents whose relationship cascades are deleted; optional references are cleared; a required dependent without cascade refuses the delete
  (error, nothing changed); and after the commit the database holds no reference to a deleted row (PRAGMA foreign_key_check + explicit anti-join).
The rule for 'cascades' is the documented default: the option when given, otherwise (collection and reverse side required).
Plus (PROOF, finite): Attribute.linked's default and the ON DELETE clause chosen by Database.generate_mapping agree with that rule for every shape."""
import itertools, types
from vf.verify import Contract, Case
from vf.explore import cur
from pony import orm
from pony.orm import core

META = dict(
    level='other',
    explanation='BOUNDED decision table executed end to end on real SQLite (foreign keys on): every relationship shape x cascade option x required/optional x dependents x loaded x '
                'three ways of deleting; plus the finite table of cascade defaults and ON DELETE clauses',
    trusted_base=['SQLite enforces foreign keys and reports violations (PRAGMA foreign_key_check)'],
    assumptions=['two entities per shape, at most two dependents', 'other backends\' ON DELETE behaviour is the database\'s contract'],
)


def cascades(shape, opt, reverse_required):
    if opt is not None: return opt
    return shape in ('one_to_many',) and reverse_required


def _build(shape, opt, reverse_required, declared_on='root'):
    if declared_on == 'subclass': return _build_sub(shape, opt, reverse_required)
    db = orm.Database('sqlite', ':memory:')
    kw = {} if opt is None else dict(cascade_delete=opt)
    Rev = orm.Required if reverse_required else orm.Optional
    if shape == 'one_to_many':
        class Parent(db.Entity):
            name = orm.Optional(str)
            deps = orm.Set('Dep', **kw)

        class Dep(db.Entity):
            name = orm.Optional(str)
            parent = Rev(Parent)
    elif shape == 'one_to_one_fk_on_dependent':
        class Parent(db.Entity):
            name = orm.Optional(str)
            deps = orm.Optional('Dep', **kw)

        class Dep(db.Entity):
            name = orm.Optional(str)
            parent = Rev(Parent, **({} if reverse_required else dict(column='parent')))
    elif shape == 'one_to_one_fk_on_deleted':
        # the deleted object holds the column; the dependent REQUIRES / optionally has it
        class Parent(db.Entity):
            name = orm.Optional(str)
            deps = orm.Optional('Dep', column='dep', **kw)

        class Dep(db.Entity):
            name = orm.Optional(str)
            parent = Rev(Parent) if not reverse_required else orm.Required(Parent)
        if reverse_required: return None                      # both sides cannot be declared this way (Required side must hold the column): not a shape pony accepts
    else:
        class Parent(db.Entity):
            name = orm.Optional(str)
            deps = orm.Set('Dep')

        class Dep(db.Entity):
            name = orm.Optional(str)
            parent = orm.Set(Parent)
    db.generate_mapping(create_tables=True)
    return types.SimpleNamespace(db=db, Parent=Parent, Dep=Dep)


def _build_sub(shape, opt, reverse_required):
    """the same shapes with the dependent's reference declared on a SUBCLASS (single-table inheritance makes its column nullable whatever the declaration says)"""
    db = orm.Database('sqlite', ':memory:')
    kw = {} if opt is None else dict(cascade_delete=opt)
    Rev = orm.Required if reverse_required else orm.Optional
    if shape == 'one_to_many':
        class Parent(db.Entity):
            name = orm.Optional(str)
            deps = orm.Set('SubDep', **kw)

        class Dep(db.Entity):
            name = orm.Optional(str)

        class SubDep(Dep):
            parent = Rev(Parent)
    elif shape == 'one_to_one_fk_on_dependent':
        class Parent(db.Entity):
            name = orm.Optional(str)
            deps = orm.Optional('SubDep', **kw)

        class Dep(db.Entity):
            name = orm.Optional(str)

        class SubDep(Dep):
            parent = Rev(Parent, **({} if reverse_required else dict(column='parent')))
    else: return None
    db.generate_mapping(create_tables=True)
    return types.SimpleNamespace(db=db, Parent=Parent, Dep=SubDep)


def _configs(tier):
    out = []
    for shape in ('one_to_many', 'one_to_one_fk_on_dependent', 'one_to_one_fk_on_deleted', 'many_to_many'):
        for opt in (None, True, False):
            for rr in (True, False):
                if shape == 'many_to_many' and (opt is not None or rr): continue
                if shape == 'one_to_one_fk_on_deleted' and rr: continue
                for has_dep in (False, True):
                    for loaded in (False, True):
                        for how in ('obj.delete', 'query.delete', 'bulk'):
                            out.append(dict(shape=shape, cascade_delete=opt, reverse_required=rr, has_dep=has_dep, loaded=loaded, how=how, declared_on='root'))
                            if shape in ('one_to_many', 'one_to_one_fk_on_dependent'):
                                out.append(dict(shape=shape, cascade_delete=opt, reverse_required=rr, has_dep=has_dep, loaded=loaded, how=how, declared_on='subclass'))
    return out


def _state(M):
    con = M.db.provider.pool.con
    tabs = [r[0] for r in con.execute("select name from sqlite_master where type='table' order by name").fetchall()]
    rows = {t: sorted(con.execute('select * from "%s"' % t).fetchall(), key=repr) for t in tabs}
    fk = con.execute('PRAGMA foreign_key_check').fetchall()
    return rows, fk


def _case(cfg, values):
    def setup(run):
        core.local.db2cache.clear(); core.local.db_context_counter = 0; core.local.db_session = None

    def teardown(run):
        try: orm.rollback()
        except Exception: pass
        core.local.db2cache.clear(); core.local.db_context_counter = 0; core.local.db_session = None

    def call():
        st = cur().state
        try:
            M = _build(cfg['shape'], cfg['cascade_delete'], cfg['reverse_required'], cfg['declared_on'])
        except TypeError as e:
            st['declaration_rejected'] = str(e)
            return 'rejected'
        if M is None:
            st['declaration_rejected'] = 'n/a'
            return 'rejected'
        P, D = M.Parent, M.Dep
        many = cfg['shape'] in ('one_to_many', 'many_to_many')
        with orm.db_session:
            p1 = P(name='victim'); p2 = P(name='bystander')
            if cfg['has_dep']:
                if cfg['shape'] == 'many_to_many':
                    D(name='d1', parent=[p1, p2]); D(name='d2', parent=[p1])
                elif many:
                    D(name='d1', parent=p1); D(name='d2', parent=p1)
                else:
                    D(name='d1', parent=p1)
            if cfg['shape'] == 'many_to_many': D(name='other', parent=[p2])
            elif cfg['reverse_required']: D(name='other', parent=p2)
            else: D(name='other', parent=p2); D(name='free')
        st['before'], fk0 = _state(M)
        st['exc'] = None
        try:
            with orm.db_session:
                v = P.get(name='victim')
                if cfg['loaded']:
                    x = v.deps
                    if many: list(x)
                    elif x is not None: x.name
                st['exc_at'] = 'call'
                if cfg['how'] == 'obj.delete': v.delete()
                elif cfg['how'] == 'query.delete': st['n'] = orm.select(p for p in P if p.name == 'victim').delete()
                else: st['n'] = orm.select(p for p in P if p.name == 'victim').delete(bulk=True)
                st['exc_at'] = 'after'
                if cfg['how'] != 'bulk':
                    # what the session itself sees after the delete, before anything is flushed
                    st['mem_deps'] = sorted((d.name, getattr(d.parent, 'name', None) if not many else None) for d in D._get_cache_objects_() ) if False else \
                        sorted(o.name for o in v._session_cache_.objects if isinstance(o, D) and o._status_ not in ('marked_to_delete', 'cancelled', 'deleted'))
                    st['mem_all_loaded'] = cfg['loaded']
        except Exception as e:
            st['exc'] = e
        st['after'], st['fk'] = _state(M)
        st['names'] = {t: sorted(r[1] for r in rows) for t, rows in st['after'].items() if t in ('Parent', 'Dep')}
        st['dep_refs'] = None
        if cfg['shape'] in ('one_to_many', 'one_to_one_fk_on_dependent'):
            con = M.db.provider.pool.con
            st['dep_refs'] = sorted(con.execute('select name, parent from Dep').fetchall())
            st['dangling'] = con.execute('select count(*) from Dep where parent is not null and parent not in (select id from Parent)').fetchone()[0]
        elif cfg['shape'] == 'one_to_one_fk_on_deleted':
            con = M.db.provider.pool.con
            st['dangling'] = con.execute('select count(*) from Parent where dep is not null and dep not in (select id from Dep)').fetchone()[0]
        else:
            con = M.db.provider.pool.con
            t = [k for k in st['after'] if k not in ('Parent', 'Dep')][0]
            st['links'] = sorted(con.execute('select * from "%s"' % t).fetchall())
            cols = [r[1] for r in con.execute('PRAGMA table_info("%s")' % t).fetchall()]
            st['dangling'] = con.execute('select count(*) from "%s" where %s not in (select id from Parent) or %s not in (select id from Dep)'
                                         % (t, cols[1] if cols[0] == 'dep' else cols[0], 'dep')).fetchone()[0]
        return 'ran'
    return Case(call, {}, [], setup, teardown)


def _spec(cfg, i, path):
    if path.outcome != 'ret': return False
    st = path.state
    if path.value == 'rejected':
        # a declaration pony refuses when the mapping is made is not a deletion scenario; only the combinations the documentation forbids may be refused
        return cfg['shape'] != 'one_to_many' or 'declaration_rejected' in st and False
    if st['fk'] or st['dangling']: return False                               # the committed database never references a deleted row
    shape = cfg['shape']
    names = st['names']
    exc = st['exc']
    if cfg['how'] == 'bulk' and shape == 'one_to_one_fk_on_deleted':
        # a bulk delete runs in the database only: the property asks for no dangling reference (checked above), not for the in-memory cascade
        return exc is None and 'victim' not in names['Parent'] and 'bystander' in names['Parent']
    if not cfg['has_dep'] or shape == 'many_to_many':
        if exc is not None: return False
        if 'victim' in names['Parent'] or 'bystander' not in names['Parent']: return False
        if shape == 'many_to_many':
            # the other side's objects stay; only the victim's link rows go
            want = ['d1', 'd2', 'other'] if cfg['has_dep'] else ['other']
            return names['Dep'] == want
        return 'other' in names['Dep']
    if shape == 'one_to_one_fk_on_deleted':
        # the victim holds the column: deleting it can never dangle; the dependent is deleted only when the relationship cascades
        if exc is not None: return False
        if 'victim' in names['Parent']: return False
        return ('d1' in names['Dep']) == (not cascades(shape, cfg['cascade_delete'], cfg['reverse_required']))
    casc = cascades(shape, cfg['cascade_delete'], cfg['reverse_required'])
    deps = ['d1', 'd2'] if shape == 'one_to_many' else ['d1']
    if casc:
        if cfg['how'] != 'bulk' and any(d in st.get('mem_deps', ()) for d in deps): return False       # in the session too the dependents are deleted, not merely unlinked
        return exc is None and 'victim' not in names['Parent'] and not any(d in names['Dep'] for d in deps) and 'other' in names['Dep']
    if not cfg['reverse_required']:
        if exc is not None or 'victim' in names['Parent']: return False
        refs = dict(st['dep_refs'])
        return all(d in refs and refs[d] is None for d in deps) and refs['other'] is not None
    # a required dependent without cascade: refused, nothing changed
    if cfg['how'] != 'bulk' and not (st['exc_at'] == 'call' and isinstance(exc, core.ConstraintError)): return False     # refused by the delete itself, not discovered at commit
    return exc is not None and isinstance(exc, (core.ConstraintError, core.IntegrityError, core.TransactionIntegrityError, core.CommitException)) and st['after'] == st['before']


# ------------------------------------------------------------------ defaults and ON DELETE clauses (finite table)
def _od_configs(tier):
    return [dict(shape=s, cascade_delete=o, reverse_required=r, declared_on=w) for s in ('one_to_many', 'one_to_one_fk_on_dependent') for o in (None, True, False) for r in (True, False) for w in ('root', 'subclass')]


def _od_case(cfg, values):
    def call():
        try: M = _build(cfg['shape'], cfg['cascade_delete'], cfg['reverse_required'], cfg['declared_on'])
        except TypeError as e: return ('rejected', str(e))
        table = M.db.schema.tables['Dep']
        fks = list(table.foreign_keys.values())
        assert len(fks) == 1
        return (M.Parent.deps.cascade_delete, fks[0].on_delete, table.get_create_command())
    return Case(call, {}, [])


def _od_spec(cfg, i, path):
    if path.outcome != 'ret': return False
    if path.value[0] == 'rejected': return False
    casc, on_delete, sql = path.value
    want = cascades(cfg['shape'], cfg['cascade_delete'], cfg['reverse_required'])
    if casc != want: return False
    ddl = ' '.join(sql.split())
    if want: return on_delete == 'CASCADE' and 'ON DELETE CASCADE' in ddl
    if not cfg['reverse_required']: return on_delete == 'SET NULL' and 'ON DELETE SET NULL' in ddl
    return on_delete is None and 'ON DELETE' not in ddl


CONTRACTS = [
    Contract('delete_decision_table', ['pony.orm.core:Entity._delete_', 'pony.orm.core:Entity.delete', 'pony.orm.core:Query.delete', 'pony.orm.core:Attribute.linked',
                                       'pony.orm.core:Database.generate_mapping', 'pony.orm.core:Entity._save_deleted_'], _configs, _case,
             [('cascade_unlink_or_refuse_and_no_dangling_reference', _spec)], level='bounded',
             bound='4 relationship shapes x cascade option x required/optional x reference declared on the root entity or on a subclass x dependents (0 / 1-2) x loaded or not x obj.delete / Query.delete / bulk delete'),
    Contract('cascade_default_and_on_delete_clause', ['pony.orm.core:Attribute.linked', 'pony.orm.core:Database.generate_mapping'], _od_configs, _od_case,
             [('default_and_on_delete_follow_the_rule', _od_spec)], level='bounded', bound='2 shapes x 3 options x required/optional x declared on the root entity / on a subclass'),
    Contract('bulk_delete_removes_exactly_the_selected_rows', ['pony.orm.core:Query.delete', 'pony.orm.sqltranslation:SQLTranslator.construct_delete_sql_ast', 'pony.orm.sqlbuilding:SQLBuilder.DELETE'],
             __import__('contracts.c15_bulk', fromlist=['x']).configs, __import__('contracts.c15_bulk', fromlist=['x']).case,
             [('the_rows_of_the_query_and_the_database_of_the_object_by_object_delete', __import__('contracts.c15_bulk', fromlist=['x']).spec)], level='bounded',
             bound=__import__('contracts.c15_bulk', fromlist=['x']).BOUND),
]

from contracts import c13 as _c13
# a refused / failed modification must leave the session as it was - identity map, key indexes, save queue and statuses included (contracted under C13 and shared here:
# a refused cascading delete that loses an index entry yields a second object for one key (C11) and a delete that cannot be retried (C15))
CONTRACTS += [c for c in _c13.CONTRACTS if c.id == 'handlers_with_fault_injection']
