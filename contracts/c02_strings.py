"""C02 (bounded part): the string functions mean the same on every dialect.

The REAL dialect builders (SQLBuilder generic, SQLiteBuilder, PGSQLBuilder, CRSQLBuilder, MySQLBuilder, OraBuilder) render the SQL AST nodes the translator emits for
upper / lower / len / strip / lstrip / rstrip (with and without chars) / + / replace over string literals. The SQLite text is EXECUTED on a real connection opened by pony
(with pony's registered functions); the text of the other dialects is evaluated by a small interpreter of the emitted forms under each server's DOCUMENTED function semantics
(no server exists in this sandbox - assumption, see META of c02). Every answer must equal the Python method's answer, which makes the dialects agree with each other.

Documented semantics encoded below:
  PostgreSQL / Oracle / SQLite  ltrim(s, set) rtrim(s, set) [trim(s, set): PostgreSQL, SQLite]: strip any character of `set`; one-argument forms strip spaces
  MySQL  trim({both|leading|trailing} rem from s): strip repeated occurrences of the STRING rem; ltrim(s) / rtrim(s) / trim(s): spaces
  MySQL  length(s): BYTES of s; char_length(s): characters.   PostgreSQL / Oracle / SQLite length(s): characters
  a || b: concatenation (PostgreSQL, Oracle, SQLite); MySQL concat(a, b, ...)
  replace(s, from, to): every occurrence of a non-empty `from`, case-sensitively (all four)
  string literal: '...' with '' for a quote (the data has no backslash: MySQL would also take it as an escape)"""
import re, types
from vf.verify import Case
from contracts import stubs
stubs.install_driver_stubs()
from pony.orm import sqlbuilding as sb
from pony.orm.dbproviders import sqlite as sq, postgres as pg, mysql as my, oracle as ora, cockroach as cr

BOUND = '6 dialect builders x 27 string expressions x 17 strings (ASCII and non-ASCII, with spaces, quotes and repeated trim characters); Oracle trim(s, chars) is not valid Oracle syntax and is left out'
DATA = ['**ab*c**', 'ba*ba', 'abc', '*x', 'y*', '  pad  ', ' *z* ', "it's", 'héllo wörld', 'ÀÉ', 'x', '*-*-', '-*ab-*', 'ab*ab', 'AbC dEf', '日本語*', '**']
BUILDERS = {'generic': sb.SQLBuilder, 'SQLite': sq.SQLiteBuilder, 'PostgreSQL': pg.PGSQLBuilder, 'CockroachDB': cr.CRSQLBuilder, 'MySQL': my.MySQLBuilder, 'Oracle': ora.OraBuilder}


def V(s): return ['VALUE', s]


FUNCS = {
    'upper': (lambda e: ['UPPER', e], lambda s: s.upper()), 'lower': (lambda e: ['LOWER', e], lambda s: s.lower()), 'len': (lambda e: ['LENGTH', e], len),
    'strip()': (lambda e: ['TRIM', e], lambda s: s.strip()), 'lstrip()': (lambda e: ['LTRIM', e], lambda s: s.lstrip()), 'rstrip()': (lambda e: ['RTRIM', e], lambda s: s.rstrip()),
    'x + s': (lambda e: ['CONCAT', V("-'x"), e], lambda s: "-'x" + s), 's + x + s': (lambda e: ['CONCAT', e, V('+'), e], lambda s: s + '+' + s),
    'replace(*, -)': (lambda e: ['REPLACE', e, V('*'), V('-')], lambda s: s.replace('*', '-')), 'replace(ab, )': (lambda e: ['REPLACE', e, V('ab'), V('')], lambda s: s.replace('ab', '')),
    'replace(a, A)': (lambda e: ['REPLACE', e, V('a'), V('A')], lambda s: s.replace('a', 'A')),
    'upper(rstrip(s + **, *))': (lambda e: ['UPPER', ['RTRIM', ['CONCAT', e, V('**')], V('*')]], lambda s: (s + '**').rstrip('*').upper()),
    'len(lstrip(s, *))': (lambda e: ['LENGTH', ['LTRIM', e, V('*')]], lambda s: len(s.lstrip('*'))),
    'len(s + s)': (lambda e: ['LENGTH', ['CONCAT', e, e]], lambda s: len(s + s)),
    'lstrip(rstrip(s, *), space)': (lambda e: ['LTRIM', ['RTRIM', e, V('*')], V(' ')], lambda s: s.rstrip('*').lstrip(' ')),
}
for _c in ('*', ' ', '*-', 'ab'):
    FUNCS['strip(%s)' % _c] = (lambda e, c=_c: ['TRIM', e, V(c)], lambda s, c=_c: s.strip(c))
    FUNCS['lstrip(%s)' % _c] = (lambda e, c=_c: ['LTRIM', e, V(c)], lambda s, c=_c: s.lstrip(c))
    FUNCS['rstrip(%s)' % _c] = (lambda e, c=_c: ['RTRIM', e, V(c)], lambda s, c=_c: s.rstrip(c))


def configs(tier):
    return [dict(dialect=d, func=f) for d in BUILDERS for f in FUNCS if not (d == 'Oracle' and f.startswith('strip(') and f != 'strip()')]


def render(dialect, ast):
    prov = type('P', (), dict(paramstyle='qmark', quote_name=lambda self, n: '"%s"' % n, json1_available=True))()
    if dialect == 'SQLite':                             # what the SQLite translator emits for upper / lower (sqlite.py: StringMixin_UPPER / _LOWER)
        def swap(a): return [{'UPPER': 'PY_UPPER', 'LOWER': 'PY_LOWER'}.get(a[0], a[0])] + [swap(x) if isinstance(x, list) else x for x in a[1:]]
        ast = swap(ast)
    return BUILDERS[dialect](prov, ast).sql


# ---- interpreter of the emitted forms ----
_TOK = re.compile(r"\s*('(?:[^']|'')*'|\|\||[(),]|[A-Za-z_][A-Za-z_0-9]*)")


def _tokens(sql):
    out = []; pos = 0
    while pos < len(sql):
        if sql[pos:].strip() == '': break
        m = _TOK.match(sql, pos)
        if not m: raise ValueError('cannot read %r at %d' % (sql, pos))
        out.append(m.group(1)); pos = m.end()
    return out


def _strip_set(s, chars, mode):
    if mode in ('both', 'leading'): s = s.lstrip(chars)
    if mode in ('both', 'trailing'): s = s.rstrip(chars)
    return s


def _strip_str(s, rem, mode):
    if rem == '': return s
    if mode in ('both', 'leading'):
        while s.startswith(rem): s = s[len(rem):]
    if mode in ('both', 'trailing'):
        while s.endswith(rem): s = s[:-len(rem)]
    return s


class Interp(object):
    def __init__(self, dialect, sql):
        self.d = dialect; self.t = _tokens(sql); self.i = 0

    def peek(self): return self.t[self.i] if self.i < len(self.t) else None

    def take(self, want=None):
        tok = self.peek()
        if tok is None or (want is not None and tok.lower() != want): raise ValueError('expected %r, found %r' % (want, tok))
        self.i += 1
        return tok

    def run(self):
        v = self.expr()
        if self.peek() is not None: raise ValueError('trailing text %r' % self.peek())
        return v

    def expr(self):
        v = self.term()
        while self.peek() == '||':
            if self.d == 'MySQL': raise ValueError('|| is a logical OR on MySQL')
            self.take(); w = self.term()
            if not (isinstance(v, str) and isinstance(w, str)): raise ValueError('|| of non-strings')
            v = v + w
        return v

    def term(self):
        tok = self.take()
        if tok.startswith("'"): return tok[1:-1].replace("''", "'")
        if tok == '(':
            v = self.expr(); self.take(')'); return v
        name = tok.lower(); self.take('(')
        if name == 'trim' and (self.peek() or '').lower() in ('both', 'leading', 'trailing'):
            mode = self.take().lower(); rem = self.expr(); self.take('from'); s = self.expr(); self.take(')')
            if self.d == 'MySQL': return _strip_str(s, rem, mode)
            if self.d == 'Oracle' and len(rem) != 1: raise ValueError('Oracle: trim set should have only one character')
            return _strip_str(s, rem, mode)
        args = [self.expr()]
        while self.peek() == ',': self.take(); args.append(self.expr())
        self.take(')')
        return self.call(name, args)

    def call(self, name, a):
        d = self.d
        if name in ('upper', 'lower') and len(a) == 1: return getattr(a[0], name)()
        if name == 'length' and len(a) == 1: return len(a[0].encode('utf-8')) if d == 'MySQL' else len(a[0])
        if name == 'char_length' and len(a) == 1 and d in ('MySQL', 'PostgreSQL', 'CockroachDB'): return len(a[0])
        if name in ('trim', 'ltrim', 'rtrim'):
            mode = {'trim': 'both', 'ltrim': 'leading', 'rtrim': 'trailing'}[name]
            if len(a) == 1: return _strip_set(a[0], ' ', mode)
            if len(a) == 2 and d != 'MySQL' and not (d == 'Oracle' and name == 'trim'): return _strip_set(a[0], a[1], mode)
        if name == 'concat' and d in ('MySQL', 'PostgreSQL', 'CockroachDB', 'generic') and len(a) >= 2: return ''.join(a)
        if name == 'concat' and d == 'Oracle' and len(a) == 2: return a[0] + a[1]
        if name == 'replace' and len(a) == 3 and a[1] != '': return a[0].replace(a[1], a[2])
        raise ValueError('%s(...) with %d arguments is not a %s function known to the specification' % (name, len(a), d))


_CON = None


def _sqlite_answer(sql):
    global _CON
    if _CON is None:
        from pony import orm
        db = orm.Database('sqlite', ':memory:')
        db.generate_mapping(check_tables=False)
        with orm.db_session:
            db.get_connection()
        _CON = db.provider.pool.con
    return _CON.execute('select ' + sql).fetchone()[0]


def case(cfg, values):
    def call():
        build, py = FUNCS[cfg['func']]; bad = []; n = 0
        for s in DATA:
            n += 1
            sql = render(cfg['dialect'], build(V(s)))
            want = py(s)
            try: got = _sqlite_answer(sql) if cfg['dialect'] == 'SQLite' else Interp('generic' if cfg['dialect'] == 'generic' else cfg['dialect'], sql).run()
            except ValueError as e: got = 'no meaning: %s' % e
            if got != want or type(got) is not type(want): bad.append((s, sql, 'the dialect answers %r' % (got,), 'Python answers %r' % (want,)))
        return bad[:4] if n else ['nothing run']
    return Case(call, {}, [])


def spec(cfg, i, path):
    return path.outcome == 'ret' and path.value == []
