"""C09 Committed database state equals the state the program committed — BOUNDED stand-in (level other).

A relation between a database and a reference model over whole histories: no single-call contract expresses it. Stand-in on the real code (SessionCache.flush, _save_created_ /
_save_updated_ / _save_deleted_, add_m2m / remove_m2m, commit / rollback / close): histories of several sessions over a model with scalar, optional, unique, one-to-many in both
directions, self one-to-many, many-to-many and symmetric many-to-many relationships are executed on real SQLite and on a 70-line reference model; after EVERY commit (explicit
commit(), end of a session) the database must contain exactly the objects, values and links of the reference model, and after a rollback(), a session that ends with an exception or a
failing flush nothing done since the last commit may be visible. Histories: every history of <= 2 operations in one session followed by each way of ending it, and seeded random
histories (VERIF_SEED) of up to 10 operations with commits, rollbacks, flushes, session ends and failing sessions in between."""
import itertools, os, random, types
from vf.verify import Contract, Case
from vf.explore import cur
from pony import orm
from pony.orm import core
from contracts import c09_collections as CL

META = dict(
    level='other',
    explanation='BOUNDED: histories of creates, updates, deletes, relationship and collection changes, flushes, commits, rollbacks and failing sessions executed on real SQLite and on a '
                'reference model; the database is compared with the model after every commit and after every rollback',
    trusted_base=['the reference model of this file', 'random histories are generated from VERIF_SEED (default 1), recorded in the configuration'],
    assumptions=['one model of 3 entities; exhaustive histories of <= 2 operations, random histories of <= 10 operations (1000 quick / 150000 thorough)'],
)
_M = None


def model():
    global _M
    if _M is None:
        db = orm.Database('sqlite', ':memory:')

        class X(db.Entity):
            name = orm.Required(str, unique=True)
            v = orm.Optional(int)
            y = orm.Optional('Y', reverse='xs')
            owned = orm.Set('Y', reverse='owner')
            boss = orm.Optional('X', reverse='staff')
            staff = orm.Set('X', reverse='boss')
            friends = orm.Set('X', reverse='friends')
            tags = orm.Set('T')

        class Y(db.Entity):
            name = orm.Required(str, unique=True)
            v = orm.Optional(int, volatile=True)                 # volatile: not tracked for repeatable reads, but written like any other attribute
            xs = orm.Set(X, reverse='y')
            owner = orm.Optional(X, reverse='owned')

        class T(db.Entity):
            name = orm.Required(str, unique=True)
            xs = orm.Set(X)
        db.generate_mapping(create_tables=True)
        _M = types.SimpleNamespace(db=db, X=X, Y=Y, T=T)
    return _M


def _reset_data(M):
    with orm.db_session:
        for t in ('T_X', 'X_friends', 'X', 'Y', 'T'): M.db.execute('delete from "%s"' % t)
        M.db.execute("insert into Y(id, name, v, owner) values (1, 'y0', 0, null)")
        M.db.execute("insert into X(id, name, v, y, boss) values (1, 'x0', 0, 1, null), (2, 'x2', 2, null, 1)")
        M.db.execute("insert into T(id, name) values (1, 't0')")
        M.db.execute("insert into T_X(t, x) values (1, 1)")
        M.db.execute("insert into X_friends(x, x_2) values (1, 2), (2, 1)")


class State(object):
    def __init__(self):
        self.x = {'x0': dict(v=0, y='y0', boss=None), 'x2': dict(v=2, y=None, boss='x0')}
        self.y = {'y0': dict(v=0, owner=None)}
        self.t = {'t0'}
        self.links = {('t0', 'x0')}
        self.friends = {frozenset(('x0', 'x2'))}

    def copy(self):
        s = State.__new__(State)
        s.x = {k: dict(v) for k, v in self.x.items()}; s.y = {k: dict(v) for k, v in self.y.items()}; s.t = set(self.t); s.links = set(self.links); s.friends = set(self.friends)
        return s

    def rows(self):
        return dict(x=sorted((n, d['v'], d['y'], d['boss']) for n, d in self.x.items()), y=sorted((n, d['v'], d['owner']) for n, d in self.y.items()), t=sorted(self.t),
                    links=sorted(self.links), friends=sorted(tuple(sorted(f)) for f in self.friends))

    def need(self, kind, n):
        if n not in getattr(self, kind): raise LookupError(n)

    def op(self, o):
        a = o.split(' ')
        k = a[0]
        if k == 'newx':
            n, y = a[1], a[2]
            if n in self.x: raise LookupError(n)
            if y != '-': self.need('y', y)
            self.x[n] = dict(v=None, y=None if y == '-' else y, boss=None)
        elif k == 'newy':
            n, ow = a[1], a[2]
            if n in self.y: raise LookupError(n)
            if ow != '-': self.need('x', ow)
            self.y[n] = dict(v=None, owner=None if ow == '-' else ow)
        elif k == 'newt':
            if a[1] in self.t: raise LookupError(a[1])
            self.t.add(a[1])
        elif k in ('setv', 'setvs'):
            kind, n, val = a[1], a[2], a[3]
            self.need(kind, n); getattr(self, kind)[n]['v'] = None if val == 'None' else int(val)
        elif k == 'sety':
            self.need('x', a[1]);
            if a[2] != '-': self.need('y', a[2])
            self.x[a[1]]['y'] = None if a[2] == '-' else a[2]
        elif k == 'setowner':
            self.need('y', a[1])
            if a[2] != '-': self.need('x', a[2])
            self.y[a[1]]['owner'] = None if a[2] == '-' else a[2]
        elif k == 'setboss':
            self.need('x', a[1])
            if a[2] != '-': self.need('x', a[2])
            self.x[a[1]]['boss'] = None if a[2] == '-' else a[2]
        elif k == 'staffadd':                      # from the collection side
            self.need('x', a[1]); self.need('x', a[2]); self.x[a[2]]['boss'] = a[1]
        elif k == 'delx':
            n = a[1]; self.need('x', n); del self.x[n]
            for d in self.y.values():
                if d['owner'] == n: d['owner'] = None
            for d in self.x.values():
                if d['boss'] == n: d['boss'] = None
            self.links = {l for l in self.links if l[1] != n}; self.friends = {f for f in self.friends if n not in f}
        elif k == 'dely':
            n = a[1]; self.need('y', n); del self.y[n]
            for d in self.x.values():
                if d['y'] == n: d['y'] = None
        elif k == 'delt':
            self.need('t', a[1]); self.t.discard(a[1]); self.links = {l for l in self.links if l[0] != a[1]}
        elif k == 'tag':
            self.need('t', a[1]); self.need('x', a[2]); self.links.add((a[1], a[2]))
        elif k == 'untag':
            self.need('t', a[1]); self.need('x', a[2])
            if (a[1], a[2]) not in self.links: raise LookupError('not linked')
            self.links.discard((a[1], a[2]))
        elif k == 'friend':
            self.need('x', a[1]); self.need('x', a[2])
            if a[1] == a[2]: raise LookupError('self')
            self.friends.add(frozenset((a[1], a[2])))
        elif k == 'unfriend':
            f = frozenset((a[1], a[2]))
            if f not in self.friends: raise LookupError('not friends')
            self.friends.discard(f)
        elif k == 'settags':                       # whole-collection assignment
            self.need('x', a[1]); new = [t for t in a[2].split(',') if t]
            for t in new: self.need('t', t)
            self.links = {l for l in self.links if l[1] != a[1]} | {(t, a[1]) for t in new}
        else: raise KeyError(o)


def apply(M, o):
    X, Y, T = M.X, M.Y, M.T
    gx = lambda n: None if n == '-' else X.get(name=n); gy = lambda n: None if n == '-' else Y.get(name=n); gt = lambda n: T.get(name=n)
    a = o.split(' '); k = a[0]
    if k == 'newx': X(name=a[1], y=gy(a[2]))
    elif k == 'newy': Y(name=a[1], owner=gx(a[2]))
    elif k == 'newt': T(name=a[1])
    elif k == 'setv': (gx if a[1] == 'x' else gy)(a[2]).v = None if a[3] == 'None' else int(a[3])
    elif k == 'setvs': (gx if a[1] == 'x' else gy)(a[2]).set(v=None if a[3] == 'None' else int(a[3]))          # the same change made through Entity.set()
    elif k == 'sety': gx(a[1]).y = gy(a[2])
    elif k == 'setowner': gy(a[1]).owner = gx(a[2])
    elif k == 'setboss': gx(a[1]).boss = gx(a[2])
    elif k == 'staffadd': gx(a[1]).staff.add(gx(a[2]))
    elif k == 'delx': gx(a[1]).delete()
    elif k == 'dely': gy(a[1]).delete()
    elif k == 'delt': gt(a[1]).delete()
    elif k == 'tag': gt(a[1]).xs.add(gx(a[2]))
    elif k == 'untag': gx(a[2]).tags.remove(gt(a[1]))
    elif k == 'friend': gx(a[1]).friends.add(gx(a[2]))
    elif k == 'unfriend': gx(a[2]).friends.remove(gx(a[1]))
    elif k == 'settags': gx(a[1]).tags = [gt(t) for t in a[2].split(',') if t]
    else: raise KeyError(o)


OPS = ['newx x1 -', 'newx x1 y0', 'newx x1 y1', 'newy y1 -', 'newy y1 x0', 'newy y1 x1', 'newt t1', 'setv x x0 7', 'setv x x0 None', 'setv x x1 5', 'setv y y0 3', 'setv y y1 4', 'setvs y y0 6', 'setvs y y1 8', 'setvs x x0 9',
       'sety x0 -', 'sety x0 y1', 'sety x1 y1', 'sety x2 y0', 'setowner y0 x1', 'setowner y0 x2', 'setowner y1 x1', 'setowner y0 -', 'setboss x2 -', 'setboss x0 x2', 'setboss x1 x0',
       'staffadd x0 x1', 'staffadd x2 x0', 'delx x0', 'delx x1', 'delx x2', 'dely y0', 'dely y1', 'delt t0', 'tag t0 x1', 'tag t0 x2', 'tag t1 x0', 'untag t0 x0', 'friend x0 x1', 'friend x1 x2',
       'unfriend x0 x2', 'settags x0 ', 'settags x0 t0,t1', 'settags x2 t0', 'settags x0 t1']
CONTROL = ['COMMIT', 'ROLLBACK', 'FLUSH', 'END', 'FAIL']


def _valid_prefix(seq):
    """the history is meaningful: every operation refers to objects that exist at that point of the reference model"""
    committed = State(); work = committed.copy()
    try:
        for o in seq:
            if o in ('COMMIT', 'END'): committed = work.copy()
            elif o in ('ROLLBACK', 'FAIL'): work = committed.copy()
            elif o == 'FLUSH': pass
            else: work.op(o)
    except LookupError:
        return False
    return True


import functools


@functools.lru_cache(maxsize=None)
def histories(tier):
    out = []
    for a in OPS:
        for end in ('END', 'FAIL', 'COMMIT', 'ROLLBACK'):
            if _valid_prefix((a, end)): out.append((a, end))
    for a, b in itertools.product(OPS, repeat=2):
        for end in ('END', 'FLUSH FAIL'):
            seq = (a, b) + tuple(end.split(' '))
            if _valid_prefix(seq): out.append(seq)
    core_ops = ['newx x1 -', 'newy y1 -', 'newy y1 x0', 'newt t1', 'setv x x0 7', 'setv y y0 3', 'sety x0 y1', 'sety x1 y1', 'sety x2 y0', 'setowner y0 x1', 'setowner y1 x1', 'setboss x0 x2',
                'setboss x1 x0', 'delx x0', 'dely y0', 'tag t1 x0', 'untag t0 x0', 'friend x0 x1', 'settags x0 t1']
    for seq in itertools.product(OPS if tier == 'thorough' else core_ops, repeat=3):
        seq = seq + ('END',)
        if _valid_prefix(seq): out.append(seq)
    seed = int(os.environ.get('VERIF_SEED', '1') or 1)
    rnd = random.Random(seed)
    n = 150000 if tier == 'thorough' else 1000
    made = 0; tries = 0
    while made < n and tries < n * 50:
        tries += 1
        seq = []
        for k in range(rnd.randint(3, 10)):
            seq.append(rnd.choice(CONTROL) if rnd.random() < 0.3 else rnd.choice(OPS))
        seq.append('END')
        if _valid_prefix(seq): out.append(tuple(seq)); made += 1
    return out, seed


def _configs(tier):
    hs, seed = histories(tier)
    size = 100
    return [dict(batch=i // size, seed=seed, first=' ; '.join(hs[i])) for i in range(0, len(hs), size)]


class Failure(Exception): pass
class Meaningless(Exception): pass


def _db_rows(M):
    con = M.db.provider.pool.con
    q = lambda s: sorted(con.execute(s).fetchall(), key=repr)
    rows = dict(x=q('select X.name, X.v, Y.name, B.name from X left join Y on X.y = Y.id left join X B on X.boss = B.id'), y=q('select Y.name, Y.v, X.name from Y left join X on Y.owner = X.id'),
                t=[r[0] for r in q('select name from T')], links=q('select T.name, X.name from T_X join T on T.id = T_X.t join X on X.id = T_X.x'),
                friends=sorted(set(tuple(sorted(r)) for r in con.execute('select A.name, B.name from X_friends F join X A on A.id = F.x join X B on B.id = F.x_2').fetchall())))
    rows['x'] = [tuple(r) for r in rows['x']]; rows['y'] = [tuple(r) for r in rows['y']]; rows['links'] = [tuple(r) for r in rows['links']]
    sym = con.execute('select count(*) from X_friends F where not exists (select 1 from X_friends G where G.x = F.x_2 and G.x_2 = F.x)').fetchone()[0]
    fk = con.execute('PRAGMA foreign_key_check').fetchall()
    return rows, sym, fk


def run_history(M, seq, preload=False):
    """-> list of discrepancies between the database and the reference model at the commit / rollback points"""
    _reset_data(M)
    committed = State(); work = committed.copy()
    bad = []
    pos = [0]

    def check(where):
        rows, sym, fk = _db_rows(M)
        if rows != committed.rows(): bad.append((where, 'database: %r' % (rows,), 'model: %r' % (committed.rows(),)))
        if sym: bad.append((where, 'symmetric relationship stored one way only'))
        if fk: bad.append((where, 'dangling reference', fk))
    i = 0
    while i < len(seq):
        # one db_session: up to and including the next END / FAIL
        start = i
        try:
            with orm.db_session:
                if preload:
                    # everything is in the session beforehand: lookups by name are answered from the identity map, so NO query (hence no automatic flush) happens between
                    # the operations and their pending changes meet each other in the session's bookkeeping instead of in the database
                    for E in (M.X, M.Y, M.T): list(E.select())
                    for x in M.X.select(): list(x.tags); list(x.friends); list(x.staff)
                    for y in M.Y.select(): list(y.xs) if hasattr(y, 'xs') else None
                    for t in M.T.select(): list(t.xs)
                while i < len(seq):
                    o = seq[i]; i += 1
                    if o == 'END': break
                    if o == 'FAIL': raise Failure()
                    if o == 'COMMIT':
                        orm.commit(); committed = work.copy()
                    elif o == 'ROLLBACK':
                        orm.rollback(); work = committed.copy()
                    elif o == 'FLUSH': orm.flush()
                    else:
                        probe = work.copy()
                        try: probe.op(o)
                        except LookupError: raise Meaningless()          # an earlier session failed, so this operation refers to something that never came to exist
                        apply(M, o); work = probe
            committed = work.copy()
        except Meaningless:
            work = committed.copy(); check('before a meaningless operation'); return bad
        except Failure:
            work = committed.copy()
        except (core.OrmError, core.DBException, core.IntegrityError, core.DatabaseError) as e:
            # the session failed loudly (unorderable flush, constraint, ...): nothing since the last commit may be visible; skip the rest of that session
            work = committed.copy()
            if i == start: i += 1                                          # the session failed before its first operation (while loading): that operation is skipped too
            while i < len(seq) and seq[i - 1] not in ('END', 'FAIL'): i += 1
        check('after %d operations' % i)
    return bad


def _case(cfg, values):
    M = model()

    def reset():
        try: orm.rollback()
        except Exception: pass
        core.local.db2cache.clear(); core.local.db_context_counter = 0; core.local.db_session = None

    def call():
        st = cur().state
        hs, seed = histories(cfg['_tier'])
        bad = []
        for seq in hs[cfg['batch'] * 100:(cfg['batch'] + 1) * 100]:
            for preload in (False, True):
                r = run_history(M, seq, preload)
                if r: bad.append((' ; '.join(seq), 'everything loaded beforehand' if preload else 'loaded on demand', r[0]))
                reset()
        st['n'] = len(hs[cfg['batch'] * 100:(cfg['batch'] + 1) * 100])
        return [repr(b)[:600] for b in bad[:5]]
    return Case(call, {}, [], lambda run: reset(), lambda run: reset())


def _cfgs(tier):
    out = _configs(tier)
    for c in out: c['_tier'] = tier
    return out


CONTRACTS = [
    Contract('histories', ['pony.orm.core:SessionCache.flush', 'pony.orm.core:SessionCache._calc_modified_m2m', 'pony.orm.core:Entity._save_created_', 'pony.orm.core:Entity._save_updated_',
                           'pony.orm.core:Entity._save_deleted_', 'pony.orm.core:Set.add_m2m', 'pony.orm.core:Set.remove_m2m', 'pony.orm.core:commit', 'pony.orm.core:rollback',
                           'pony.orm.core:SessionCache.commit', 'pony.orm.core:SessionCache.close'], _cfgs, _case,
             [('database_equals_the_committed_reference_state_at_every_commit_and_rollback', lambda cfg, i, path: path.outcome == 'ret' and path.value == [] and path.state['n'] > 0)],
             level='bounded', bound='each history run with objects loaded on demand (lookups flush) and with everything loaded beforehand (one flush at the end); exhaustive histories of <= 2 operations x ways of ending the session, all triples over 19 core operations (thorough: all 42); 1000 (thorough 150000) seeded random histories of <= 10 steps over 42 operations and 5 control steps'),
    Contract('collection_histories', ['pony.orm.core:Set.__set__', 'pony.orm.core:SetInstance.add', 'pony.orm.core:SetInstance.remove', 'pony.orm.core:SetInstance.clear', 'pony.orm.core:Set.reverse_add',
                                      'pony.orm.core:Set.reverse_remove', 'pony.orm.core:SessionCache._calc_modified_m2m', 'pony.orm.core:Set.add_m2m', 'pony.orm.core:Set.remove_m2m'],
             CL.configs, CL.case, [('session_content_and_committed_rows_equal_the_set_the_operations_leave', CL.spec)], level='bounded', bound=CL.BOUND),
]


from contracts import c33 as _c33
# what hooks write while a flush is in progress belongs to the committed state too (contracted end to end under C33 and shared here)
CONTRACTS += [c for c in _c33.CONTRACTS if c.id == 'hooks_end_to_end']
from contracts import c16 as _c16
CONTRACTS += [c for c in _c16.CONTRACTS if c.id == 'scripts_under_immediate_foreign_keys']          # the committed rows of every orderable script equal the reference model (shared with C16)
