"""C35 Locked rows and serializable sessions cannot be overwritten concurrently (DESIGN 4-C35): per-call contracts; schedules are outside the technique.

What concurrent writers experience is the database's contract PROVIDED pony (a) asks for the lock: FOR UPDATE [NOWAIT | SKIP LOCKED] in the statement text,
(b) issues every locking read, and everything a serializable / pessimistic session reads, INSIDE the transaction that the session's later writes join
(SQLite: the write lock is taken by BEGIN IMMEDIATE before the read; PostgreSQL: non-autocommit, SERIALIZABLE set first), and (c) keeps that transaction
open until the session ends. (a)-(c) are put under contract on the real code."""
import types
from vf.verify import Contract, Case
from vf.explore import cur
from vf.effects import effect, Fault, Patch, note
from pony import orm
from pony.orm import core, sqlbuilding
from contracts import c19, c17
from pony.orm.dbproviders import sqlite as sq, postgres as pg
from contracts import stubs
stubs.install_driver_stubs()

META = dict(
    level='proof',
    explanation='single session: FOR UPDATE emitted with its options on every dialect builder; locking lookups and queries (get_for_update, Query.for_update, cache hit on an '
                'unlocked object) execute inside the session transaction and register the object as locked; serializable / pessimistic sessions read inside the transaction; '
                'the lock-holding transaction is ended only by the session end; ground obligations after exhaustive path enumeration',
    trusted_base=['ledger model of DB-API connections (as C17)', 'row locks / SQLite write lock / SERIALIZABLE semantics are the database\'s contract'],
    assumptions=['schedules of two or three sessions (who waits, who fails, final values versus serial executions) are NOT covered: outside contract-based verification',
                 'SQLite has no row locks: BEGIN IMMEDIATE before the read is what excludes other writers'],
)


# ------------------------------------------------------------------ (a) builders
def _b_configs(tier):
    out = []
    for d in ('generic', 'PostgreSQL', 'MySQL', 'Oracle', 'SQLite'):
        for nowait, skip in ((False, False), (True, False), (False, True)):
            for limit in (False, True, 'with offset'):
                for order in (False, True):
                    out.append(dict(dialect=d, nowait=nowait, skip_locked=skip, limit=limit, order=order))
    return out


def _builder(dialect):
    from pony.orm.dbproviders import mysql, oracle
    cls = {'generic': sqlbuilding.SQLBuilder, 'PostgreSQL': pg.PGSQLBuilder, 'MySQL': mysql.MySQLBuilder, 'Oracle': oracle.OraBuilder, 'SQLite': sq.SQLiteBuilder}[dialect]
    prov = c19.Bag(paramstyle='qmark', quote_name=lambda n: '"%s"' % n if isinstance(n, str) else '.'.join('"%s"' % x for x in n), dialect=dialect, max_params_count=999,
                   server_version=(9, 5), json1_available=True)
    return cls, prov


def _b_case(cfg, values):
    def call():
        cls, prov = _builder(cfg['dialect'])
        ast = ['SELECT_FOR_UPDATE', cfg['nowait'], cfg['skip_locked'], ['ALL', ['COLUMN', 'T', 'a']], ['FROM', ['T', 'TABLE', 'tbl']], ['WHERE', ['EQ', ['COLUMN', 'T', 'a'], ['VALUE', 1]]]]
        if cfg['order']: ast.append(['ORDER_BY', ['DESC', ['COLUMN', 'T', 'b']], ['COLUMN', 'T', 'a']])
        if cfg['limit']: ast.append(['LIMIT', 2] if cfg['limit'] is True else ['LIMIT', 2, 3])
        b = cls(prov, ast)
        plain = cls(prov, ['SELECT'] + ast[3:])
        rowids = cls(prov, ['SELECT', ['ALL', ['AS', ['COLUMN', 'T', 'ROWID'], 'row-id']]] + ast[4:]) if cfg['dialect'] == 'Oracle' else None
        return b.sql, plain.sql, rowids and rowids.sql
    return Case(call, {}, [])


def _b_spec(cfg, i, path):
    if path.outcome != 'ret': return False
    sql, plain, rowids = path.value
    if cfg['dialect'] == 'SQLite': return sql == plain                 # no row locks: the lock is BEGIN IMMEDIATE (see locking_lookup)
    tail = 'FOR UPDATE' + (' NOWAIT' if cfg['nowait'] else '') + (' SKIP LOCKED' if cfg['skip_locked'] else '')
    s = sql.rstrip()
    if not s.endswith(tail): return False
    head = s[:-len(tail)].rstrip()
    if cfg['dialect'] == 'Oracle' and cfg['limit']:
        # ROWNUM windows cannot be locked: the rows are picked by ROWID out of the (ordered) window query, and the ORDER BY is repeated on the outer block, which alone orders the result
        norm = lambda t: ' '.join(t.split())
        want = 'SELECT "T"."a" FROM "tbl" "T" WHERE "T"."ROWID" IN ( ' + norm(rowids).replace('SELECT t.* FROM', 'SELECT t."row-id" FROM', 1) + ' )'
        if cfg['order']: want += ' ORDER BY "T"."b" DESC, "T"."a"'
        return norm(head) == want and 'ROWNUM' in head
    return head == plain.rstrip()                                     # the same rows as the plain query, plus the lock request


# ------------------------------------------------------------------ (b) locking lookups on the real model
_M = None


def model():
    global _M
    if _M is None:
        db = orm.Database('sqlite', ':memory:')

        class A(db.Entity):
            name = orm.Required(str, unique=True)
            v = orm.Optional(int)
        db.generate_mapping(create_tables=True)
        with orm.db_session:
            A(name='x', v=1); A(name='y', v=2)
        _M = types.SimpleNamespace(db=db, A=A)
    return _M


def _lk_configs(tier):
    return [dict(how=h, preloaded=p, option=o) for h in ('get_for_update_pk', 'get_for_update_unique', 'get_for_update_lambda', 'select_for_update', 'query_get')
            for p in (False, True) for o in ('none', 'nowait', 'skip_locked')]


def _lk_case(cfg, values):
    M = model()

    def setup(run):
        c19._session_setup(run)
        run.state['patch'] = Patch()

    def teardown(run):
        run.state['patch'].restore()
        try: orm.rollback()
        except Exception: pass
        c19._session_teardown(run)

    def call():
        st = cur().state
        rec = st['rec'] = []
        real = core.Database._exec_sql
        real_ast2sql = M.db.provider.ast2sql
        asts = st['asts'] = []

        def _exec_sql(database, sql, arguments=None, returning_id=False, start_transaction=False):
            cache = database._get_cache()
            e = dict(sql=sql, immediate=cache.immediate or start_transaction, phase=st.get('phase'))
            rec.append(e)
            r = real(database, sql, arguments, returning_id, start_transaction)
            e['in_txn'] = cache.in_transaction
            e['con_in_txn'] = cache.connection.in_transaction               # the real sqlite3 connection: a transaction is open
            return r

        def ast2sql(ast):
            r = real_ast2sql(ast)
            asts.append((ast[0], ast[1:3], r[0]))
            return r
        st['patch'].set(core.Database, '_exec_sql', _exec_sql)
        st['patch'].set(M.db.provider, 'ast2sql', ast2sql)
        A = M.A
        A._find_sql_cache_.clear(); M.db._constructed_sql_cache.clear()
        kw = {} if cfg['option'] == 'none' else {cfg['option']: True}
        with orm.db_session:
            cache = M.db._get_cache()
            if cfg['preloaded']:
                st['phase'] = 'preload'
                o0 = A[1]; o0.v                                              # loaded WITHOUT a lock
                st['preloaded_locked'] = o0 in cache.for_update
            st['phase'] = 'lock'
            if cfg['how'] == 'get_for_update_pk': o = A.get_for_update(id=1, **kw)
            elif cfg['how'] == 'get_for_update_unique': o = A.get_for_update(name='x', **kw)
            elif cfg['how'] == 'get_for_update_lambda': o = A.get_for_update(lambda a: a.name == 'x', **kw)
            elif cfg['how'] == 'select_for_update': o = A.select(lambda a: a.name == 'x').for_update(**kw)[:][0]
            else: o = orm.select(a for a in A if a.id == 1).for_update(**kw).get()
            st['locked'] = o in cache.for_update
            st['in_txn'] = cache.in_transaction
            st['is_obj'] = o is A[1]
            st['phase'] = 'after'
            o.v = 7
            orm.flush()
            st['still_txn'] = cache.in_transaction
            orm.rollback()
        return 'done'
    return Case(call, {}, [], setup, teardown)


def _lk_spec(cfg, i, path):
    if path.outcome != 'ret': return False
    st = path.state
    lock_stmts = [r for r in st['rec'] if r['phase'] == 'lock']
    if len(lock_stmts) < 1: return False                                   # an object that is only cached, not locked, is fetched again with the lock
    if cfg['preloaded'] and st['preloaded_locked']: return False
    for r in lock_stmts:
        if not (r['immediate'] and r['in_txn'] and r['con_in_txn']): return False   # the locking read ran inside the (BEGIN IMMEDIATE) transaction
    if not (st['locked'] and st['in_txn'] and st['is_obj'] and st['still_txn']): return False
    fu = [a for a in st['asts'] if a[0] == 'SELECT_FOR_UPDATE']
    want = [cfg['option'] == 'nowait', cfg['option'] == 'skip_locked']
    return len(fu) >= 1 and all(list(a[1]) == want for a in fu)             # the statement handed to the dialect builder asks for the lock with the options


# ------------------------------------------------------------------ (b,c) session level on the ledger: reads of locking / serializable / pessimistic sessions
class ReadCursor(c17.LedgerCursor):
    def _run(self, sql):
        c17.LedgerCursor._run(self, sql)
        con = self.con
        if sql.split()[0].upper() == 'SELECT':
            note('read', sql, 'auto' if con.autocommit_now() else 'txn', con.n, getattr(con, 'isolation', None))
        if sql.startswith('SET TRANSACTION ISOLATION LEVEL SERIALIZABLE'):
            if not con.autocommit_now(): con.isolation = 'serializable'


def read_con(kind, led):
    base = c17.ledger_con(kind, led)

    class ReadCon(base):
        def cursor(self):
            self._use('cursor'); effect('con.cursor', self.err)(); return ReadCursor(self)
        def commit(self):
            base.commit(self); note('txn-end', 'commit', self.n); self.isolation = None
        def rollback(self):
            base.rollback(self); note('txn-end', 'rollback', self.n); self.isolation = None
        def close(self):
            note('txn-end', 'close', self.n)
            base.close(self)
    return ReadCon


def _ss_configs(tier):
    out = []
    for kind in ('sqlite', 'postgres'):
        for mode in ('for_update', 'serializable', 'pessimistic'):
            for ops in ('L', 'Lw', 'rLw', 'LrW'):
                out.append(dict(provider=kind, mode=mode, ops=ops, retry=False))
            # the application catches a database error of a locking read and tries again in the same session: the read that finally succeeds must be protected as well
            for ops in ('L', 'rL', 'rLw'):
                out.append(dict(provider=kind, mode=mode, ops=ops, retry=True))
    return out


def _ss_case(cfg, values):
    def call():
        st = cur().state
        led = st['led'] = c17.Ledger()
        p = c19._mk_provider(cfg['provider'], False, st, con_cls=read_con(cfg['provider'], led))
        db = core.Database(); db.provider = p; db.provider_name = cfg['provider']
        st['provider'] = p
        s = core.DBSessionContextManager(serializable=cfg['mode'] == 'serializable', optimistic=cfg['mode'] != 'pessimistic')
        s._enter()
        exc = None
        st['locking_reads'] = []
        try:
            for k, op in enumerate(cfg['ops']):
                if op == 'L':
                    sql = 'SELECT L%d' % k
                    if cfg['mode'] == 'for_update': db._get_cache().immediate = True     # what _find_in_db_ / Query._actual_fetch do for a locking read (locking_lookup contract)
                    try: db._exec_sql(sql)
                    except (core.DBException, Fault) as e:
                        if not cfg['retry']: raise
                        note('retry')
                        sql = 'SELECT L%d again' % k
                        if cfg['mode'] == 'for_update': db._get_cache().immediate = True
                        db._exec_sql(sql)
                    st['locking_reads'].append(sql)
                elif op == 'r':
                    sql = 'SELECT r%d' % k
                    db._exec_sql(sql)
                    if cfg['mode'] != 'for_update': st['locking_reads'].append(sql)      # a serializable / pessimistic session protects everything it reads
                else:
                    db._exec_sql('UPDATE w%d' % k, None, False, True)
            note('body-end')
        except BaseException as e:
            if type(e).__name__ in ('Concretization', 'Unsupported'): raise
            exc = e
        st['body_exc'] = exc
        try: s.__exit__(type(exc) if exc is not None else None, exc, None)
        except BaseException as e2:
            if type(e2).__name__ in ('Concretization', 'Unsupported'): raise
        return 'ended'
    return Case(call, {}, [], c19._session_setup, c19._session_teardown)


def _ss_spec(cfg, i, path):
    st = path.state
    reads = {g[1]: g for g in path.ghost if g[0] == 'read'}
    for sql in st['locking_reads']:                                        # acknowledged reads that must be protected
        g = reads.get(sql)
        if g is None or g[2] != 'txn': return False                        # executed in autocommit mode: the lock (or snapshot) is gone at once
        if cfg['mode'] == 'serializable' and cfg['provider'] == 'postgres' and g[4] != 'serializable': return False
    # the protecting transaction is not ended between the first protected read and the end of the body
    names = [g[0] for g in path.ghost]
    first = next((k for k, g in enumerate(path.ghost) if g[0] == 'read' and g[1] in st['locking_reads']), None)
    if first is None or 'body-end' not in names: return True
    end = names.index('body-end')
    return not any(g[0] == 'txn-end' for g in path.ghost[first:end])


# ------------------------------------------------------------------ db_session options
def _opt_configs(tier):
    return [dict(immediate=a, ddl=b, serializable=c, optimistic=d) for a in (False, True) for b in (False, True) for c in (False, True) for d in (False, True)]


def _opt_case(cfg, values):
    return Case(lambda: (lambda s: (s.immediate, s.optimistic, s.serializable))(core.DBSessionContextManager(**{k: v for k, v in cfg.items() if not k.startswith('_')})), {}, [])


def _opt_spec(cfg, i, path):
    if path.outcome != 'ret': return False
    imm, opt, ser = path.value
    return imm == (cfg['immediate'] or cfg['ddl'] or cfg['serializable'] or not cfg['optimistic']) and ser == cfg['serializable'] \
        and opt == (cfg['optimistic'] and not cfg['serializable'])


# ------------------------------------------------------------------ PGProvider.set_transaction_mode
def _pg_configs(tier):
    return [dict(immediate=a, serializable=b, autocommit=c) for a in (False, True) for b in (False, True) for c in (False, True) if a or not b]


def _pg_case(cfg, values):
    def call():
        st = cur().state
        led = c17.Ledger()
        p = c19._mk_provider('postgres', False, st, con_cls=read_con('postgres', led))
        con = read_con('postgres', led)(0, (stubs_err(),)); con._ac = cfg['autocommit']
        cache = c19.Bag(immediate=cfg['immediate'], in_transaction=False, db_session=c19.Bag(serializable=cfg['serializable'], ddl=False))
        st['con'] = con; st['cache'] = cache
        p.set_transaction_mode(con, cache)
        return 'set'
    return Case(call, {}, [])


def stubs_err():
    import psycopg2
    return psycopg2.OperationalError


def _pg_spec(cfg, i, path):
    st = path.state; con, cache = st['con'], st['cache']
    if path.outcome != 'ret': return None
    if cfg['immediate'] and con._ac: return False                              # an immediate cache never stays in autocommit mode
    if not cfg['immediate'] and not con._ac: return False
    if cfg['serializable']:
        return getattr(con, 'isolation', None) == 'serializable' and cache.in_transaction is True
    return getattr(con, 'isolation', None) is None


# ------------------------------------------------------------------ SessionCache.commit: locks are released, so the set of locked objects is emptied
def _cm_case(cfg, values):
    def call():
        st = cur().state
        db = core.Database(); db.provider = c19.Bag(commit=effect('provider.commit', (Fault,)), rollback=effect('provider.rollback', ()), release=effect('provider.release', ()),
                                                     drop=effect('provider.drop', ()))
        core.local.db_context_counter = 1
        cache = core.local.db2cache[db] = core.SessionCache(db)
        cache.connection = object(); cache.in_transaction = True
        cache.for_update.add('obj')
        st['cache'] = cache; st['fu'] = cache.for_update
        cache.commit()
        return 'committed'
    return Case(call, {}, [], c19._session_setup, c19._session_teardown)


def _cm_spec(cfg, i, path):
    st = path.state
    if path.outcome == 'ret': return len(st['fu']) == 0 and st['cache'].immediate is True
    return not st['cache'].is_alive                                            # failed commit: the session was rolled back and closed


CONTRACTS = [
    Contract('SELECT_FOR_UPDATE', ['pony.orm.sqlbuilding:SQLBuilder.SELECT_FOR_UPDATE', 'pony.orm.dbproviders.oracle:OraBuilder.SELECT_FOR_UPDATE',
                                   'pony.orm.dbproviders.sqlite:SQLiteBuilder.SELECT_FOR_UPDATE'], _b_configs, _b_case,
             [('lock_request_with_options_appended_to_the_plain_query', _b_spec)]),
    Contract('locking_lookup', ['pony.orm.core:EntityMeta.get_for_update', 'pony.orm.core:EntityMeta._find_one_', 'pony.orm.core:EntityMeta._find_in_cache_',
                                'pony.orm.core:EntityMeta._find_in_db_', 'pony.orm.core:EntityMeta._construct_sql_', 'pony.orm.core:Query.for_update', 'pony.orm.core:Query._actual_fetch',
                                'pony.orm.core:EntityMeta._get_from_identity_map_'], _lk_configs, _lk_case,
             [('locking_read_runs_in_the_transaction_asks_for_the_lock_and_registers_the_object', _lk_spec)]),
    Contract('session.protected_reads', ['pony.orm.core:Database._exec_sql', 'pony.orm.core:SessionCache.prepare_connection_for_query_execution',
                                         'pony.orm.dbproviders.sqlite:SQLiteProvider.set_transaction_mode', 'pony.orm.dbproviders.postgres:PGProvider.set_transaction_mode'],
             _ss_configs, _ss_case, [('protected_reads_run_inside_the_session_transaction_which_stays_open', _ss_spec)], budget=20000),
    Contract('DBSessionContextManager.__init__', 'pony.orm.core:DBSessionContextManager.__init__', _opt_configs, _opt_case,
             [('immediate_iff_any_pessimistic_option', _opt_spec)], allowed_exc=(TypeError,)),
    Contract('PGProvider.set_transaction_mode', 'pony.orm.dbproviders.postgres:PGProvider.set_transaction_mode', _pg_configs, _pg_case,
             [('serializable_set_inside_a_non_autocommit_transaction', _pg_spec)], allowed_exc=(Exception,)),
    Contract('SessionCache.commit', 'pony.orm.core:SessionCache.commit', [dict()], _cm_case, [('locked_set_cleared_when_locks_are_released', _cm_spec)], allowed_exc=(Fault,)),
]


def _share_cache_key_contract():
    # a locking query must not be answered from what was built or fetched for its non-locking form: for_update / nowait / skip_locked are fields of the SQL key (contract of C05)
    from contracts import c05
    CONTRACTS.extend(c for c in c05.CONTRACTS if c.id == 'Query._construct_sql_and_arguments')
_share_cache_key_contract()
