"""C32 Objects from a finished session are read-only snapshots (DESIGN 4-C32).

Finite domain, enumerated completely: (how the session ended) x (strict) x (object status left over) x (operation).
Precondition of every operation's contract: `obj._session_cache_ is None or not cache.is_alive`. Postcondition: raises
DatabaseSessionIsOver, empty frame (object and session state equal the snapshot), empty effect trace (no SQL, no connection)."""
import copy
from vf.verify import Contract, Case
from vf.explore import cur
from vf.effects import note, Patch
from pony import orm
from pony.orm import core

from contracts import c32_reads as RD

META = dict(
    level='proof',
    explanation='finite domain enumerated completely on the real code: every listed public operation, on objects of every status left over from sessions '
                'that committed, rolled back or failed, strict and non-strict; obligations are ground',
    trusted_base=['in-memory SQLite as the database behind the real sessions that produce the left-over objects',
                  'effect trace = calls of Database._exec_sql and provider.connect (recorded by wrappers around the real functions)'],
    assumptions=['the operation list is the 15 public operations named in DESIGN 4-C32 plus loaded-value reads; other entry points are not covered'],
)

_M = None


def model():
    global _M
    if _M is not None: return _M
    db = orm.Database('sqlite', ':memory:')

    class G(db.Entity):
        name = orm.Required(str)
        items = orm.Set('I')
        data = orm.Optional(orm.Json)
        big = orm.Optional(str, lazy=True)

    class I(db.Entity):
        g = orm.Required(G)
        n = orm.Required(int)
        tags = orm.Set('T')

    class T(db.Entity):
        label = orm.Required(str)
        items = orm.Set(I)
    db.generate_mapping(create_tables=True)
    with orm.db_session:
        g = G(name='g1', data={'k': [1]}, big='B')
        i = I(g=g, n=1); t = T(label='t'); i.tags.add(t)
        G(name='spare')
    _M = type('M', (), dict(db=db, G=G, I=I, T=T))
    return _M


class BodyFailed(Exception): pass

ENDINGS = ['commit', 'rollback', 'error']
KINDS = ['loaded', 'created', 'created-never-connected', 'modified', 'deleted', 'reference-only']


def leftover(M, ending, strict, kind):
    """Run a REAL session that ends as requested and return an object of the requested kind left over from it."""
    box = {}
    try:
        with orm.db_session(strict=strict):
            if kind == 'loaded':
                o = M.G.get(name='g1'); o.items.load(); list(o.items)
            elif kind == 'created':
                o = M.G(name='tmp_%s_%s' % (ending, strict), data={'k': [1]})
                M.I(g=o, n=5)
            elif kind == 'created-never-connected':
                # the session only creates objects: no query, no flush before the end => the cache never acquires a connection
                o = M.G(name='tmp_nc_%s_%s' % (ending, strict), data={'k': [1]})
                box['o'] = o; box['i'] = M.I(g=o, n=6); box['t'] = M.T(label='tmp_nc')
                if ending == 'rollback': orm.rollback()
                elif ending == 'error': raise BodyFailed()
            elif kind == 'modified':
                o = M.G.get(name='g1'); o.name = 'g1'; o.data['k'].append(2); o.data['k'].pop()
            elif kind == 'deleted':
                o = M.G(name='todelete'); orm.flush(); o.delete()
            else:
                i = M.I.get(n=1); o = i.g            # G reached as an unloaded reference (seed)
            if 'o' not in box:
                box['o'] = o
                box['i'] = M.I.select().first()
                box['t'] = M.T.select().first()
                if ending == 'rollback': orm.rollback()
                elif ending == 'error': raise BodyFailed()
    except BodyFailed:
        pass
    # keep the database as it was for the next case
    with orm.db_session:
        for x in M.G.select(lambda g: g.name.startswith('tmp_') or g.name == 'todelete'):
            for it in list(x.items): it.delete()
            x.delete()
        for x in M.T.select(lambda t: t.label == 'tmp_nc'): x.delete()
    return box


def snapshot(o):
    vals = o._vals_
    if vals is not None:
        vals = {a.name: (sorted(map(repr, v)) if isinstance(v, core.SetData) else copy.deepcopy(v) if not isinstance(v, core.Entity) else repr(v))
                for a, v in vals.items() if v is not None}
    return (o._status_, o._wbits_, o._rbits_, vals, o._session_cache_ is None or not o._session_cache_.is_alive,
            getattr(o, '_save_pos_', None))


OPS = {
    'Attribute.__set__': lambda M, b: setattr(b['o'], 'name', 'changed'),
    'Attribute.load(lazy)': lambda M, b: M.G.big.load(b['o']),
    'Set.load': lambda M, b: M.G.items.load(b['o']),
    'Set.__set__': lambda M, b: setattr(b['o'], 'items', []),
    'SetInstance.add': lambda M, b: b['o'].items.add(b['i']),
    'SetInstance.remove': lambda M, b: b['o'].items.remove(b['i']),
    'SetInstance.clear': lambda M, b: b['o'].items.clear(),
    'SetInstance.create': lambda M, b: b['o'].items.create(n=9),
    'Entity.delete': lambda M, b: b['o'].delete(),
    'Entity.set': lambda M, b: b['o'].set(name='changed'),
    'Entity.load': lambda M, b: b['o'].load(),
    'Entity.flush': lambda M, b: b['o'].flush(),
    'Entity._attr_changed_(Json in place)': lambda M, b: b['o']._attr_changed_(M.G.data),
    'm2m.add': lambda M, b: b['i'].tags.add(b['t']),
    'Entity.set(relation)': lambda M, b: b['i'].set(g=b['o']),
}


def _ops_configs(tier):
    return [dict(ending=e, strict=s, kind=k, op=op) for e in ENDINGS for s in (False, True) for k in KINDS for op in OPS]


def _ops_case(cfg, values):
    M = model()

    def call():
        st = cur().state
        b = leftover(M, cfg['ending'], cfg['strict'], cfg['kind'])
        o = b['o']
        st['pre_alive'] = o._session_cache_ is not None and o._session_cache_.is_alive
        st['before'] = (snapshot(o), snapshot(b['i']), snapshot(b['t']))
        p = Patch(); st['patch'] = p
        real_exec = core.Database._exec_sql; real_connect = M.db.provider.connect
        p.set(core.Database, '_exec_sql', lambda self, *a, **k: (note('_exec_sql', a[0][:40]), real_exec(self, *a, **k))[1])
        p.set(M.db.provider, 'connect', lambda *a, **k: (note('provider.connect'), real_connect(*a, **k))[1])
        try:
            return OPS[cfg['op']](M, b)
        finally:
            p.restore()
            st['after'] = (snapshot(o), snapshot(b['i']), snapshot(b['t']))
            st['db2cache_empty'] = not core.local.db2cache
            core.local.db2cache.clear()
    return Case(call, {}, [])


def _ops_pre(cfg, i, path):
    """vacuity guard: the precondition (session over) really holds for the object handed to the operation"""
    return path.state.get('pre_alive') is False


def _ops_raises(cfg, i, path):
    if path.outcome != 'exc': 
        # flushing an object that has nothing to flush needs no database: a silent no-op is accepted (frame/effect clauses still apply)
        return cfg['op'] == 'Entity.flush' and path.value is None and path.state['before'][0][0] not in ('created', 'modified', 'marked_to_delete')
    if type(path.value) is core.DatabaseSessionIsOver: return True
    if cfg['kind'] == 'deleted' and type(path.value) is core.OperationWithDeletedObjectError: return True   # "was deleted" takes precedence
    if cfg['op'] == 'SetInstance.create' and type(path.value) is core.TransactionError:
        return 'db_session is required' in str(path.value)          # creating the new item needs a session: the base class of the same error
    return False


def _ops_frame(cfg, i, path):
    return path.state['before'] == path.state['after'] and path.state['db2cache_empty']


def _ops_no_effect(cfg, i, path):
    return not path.ghost


# ------------------------------------------------------------------ reads of loaded values
def _read_configs(tier):
    return [dict(ending=e, strict=s, what=w) for e in ENDINGS for s in (False, True) for w in ('attr', 'collection', 'json')]


def _read_case(cfg, values):
    M = model()

    def call():
        st = cur().state
        b = leftover(M, cfg['ending'], cfg['strict'], 'loaded')
        o = b['o']
        p = Patch(); st['patch'] = p
        real_exec = core.Database._exec_sql
        p.set(core.Database, '_exec_sql', lambda self, *a, **k: (note('_exec_sql', a[0][:40]), real_exec(self, *a, **k))[1])
        st['before'] = snapshot(o)
        try:
            if cfg['what'] == 'attr': return o.name
            if cfg['what'] == 'json': return o.data['k'][0]
            return sorted(x.n for x in o.items)
        finally:
            p.restore()
            st['after'] = snapshot(o)
            core.local.db2cache.clear()
    return Case(call, {}, [])


def _read_spec(cfg, i, path):
    if path.ghost: return False                       # never touches the database
    if cfg['strict']:
        return path.outcome == 'exc' and type(path.value) is core.DatabaseSessionIsOver
    want = {'attr': 'g1', 'json': 1, 'collection': [1]}[cfg['what']]
    return path.outcome == 'ret' and path.value == want


def _read_does_not_modify(cfg, i, path):
    # status, write bits, values, save position unchanged (the read bit of the attribute may be set: it is not a modification)
    drop_rbits = lambda s: s[:2] + s[3:]
    return drop_rbits(path.state['before']) == drop_rbits(path.state['after'])


CONTRACTS = [
    Contract('operations_after_session_end',
             ['pony.orm.core:Attribute.__set__', 'pony.orm.core:Attribute.load', 'pony.orm.core:Set.load', 'pony.orm.core:Set.__set__',
              'pony.orm.core:SetInstance.add', 'pony.orm.core:SetInstance.remove', 'pony.orm.core:SetInstance.clear', 'pony.orm.core:SetInstance.create',
              'pony.orm.core:Entity.delete', 'pony.orm.core:Entity.set', 'pony.orm.core:Entity.load', 'pony.orm.core:Entity.flush',
              'pony.orm.core:Entity._attr_changed_', 'pony.orm.core:throw_db_session_is_over'],
             _ops_configs, _ops_case,
             [('precondition_session_is_over', _ops_pre), ('raises_DatabaseSessionIsOver', _ops_raises),
              ('empty_frame', _ops_frame), ('empty_effect_trace', _ops_no_effect)],
             allowed_exc=(core.TransactionError, core.OperationWithDeletedObjectError), doc='3 endings x strict/non-strict x 5 object kinds x 15 operations'),
    Contract('reads_after_session_end', ['pony.orm.core:Attribute.__get__', 'pony.orm.core:Attribute.get', 'pony.orm.core:SetInstance.__iter__'],
             _read_configs, _read_case, [('loaded_values_readable_unless_strict', _read_spec), ('reading_modifies_nothing', _read_does_not_modify)],
             allowed_exc=(core.DatabaseSessionIsOver,)),
    Contract('reads_that_need_the_database', ['pony.orm.core:SetInstance.is_empty', 'pony.orm.core:SetInstance.count', 'pony.orm.core:SetInstance.__len__', 'pony.orm.core:SetInstance.__iter__',
                                              'pony.orm.core:SetInstance.__contains__', 'pony.orm.core:SetInstance.copy', 'pony.orm.core:Set.load', 'pony.orm.core:Attribute.load',
                                              'pony.orm.core:Entity.to_dict'], RD.configs, RD.case,
             [('refused_without_a_statement_and_without_touching_the_snapshot', RD.spec)], level='bounded', bound=RD.BOUND),
]
