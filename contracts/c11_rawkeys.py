"""C11 (bounded part): one row, one object - also when the object is reached through its RAW key values.

Keys made of references are flattened into raw column values in foreign keys, link tables, Entity[raw values], proxies and pickles; EntityMeta._get_by_raw_pkval_ turns them back
into the key of the identity map. Model: Enrollment has the key (student, course); Attempt has the key (enrollment, number) - a two-column reference that is NOT the last part;
Slot has the key (number, enrollment, flag) - the two-column reference in the middle. Every way of reaching the row of one Attempt / Slot must hand out the same Python object,
whose key is the one it was created with."""
import pickle, types
from vf.verify import Case
from pony import orm
from pony.orm import core

BOUND = 'keys of 3 and 4 raw columns with a two-column reference first / in the middle; 3 objects per entity; 9 ways of reaching an object (by objects, by raw values, get, select, reference, collection, link table, select_by_sql, pickle of a referrer) in every order of two'
db = orm.Database()                                 # module level: pickle finds the classes by name


class Student(db.Entity):
    id = orm.PrimaryKey(int)
    enrollments = orm.Set('Enrollment')


class Course(db.Entity):
    id = orm.PrimaryKey(int)
    enrollments = orm.Set('Enrollment')


class Enrollment(db.Entity):
    student = orm.Required(Student); course = orm.Required(Course); orm.PrimaryKey(student, course)
    attempts = orm.Set('Attempt'); slots = orm.Set('Slot')


class Attempt(db.Entity):
    enrollment = orm.Required(Enrollment); number = orm.Required(int); orm.PrimaryKey(enrollment, number)
    reviews = orm.Set('Review'); tags = orm.Set('Tag')


class Slot(db.Entity):
    number = orm.Required(int); enrollment = orm.Required(Enrollment); flag = orm.Required(int); orm.PrimaryKey(number, enrollment, flag)
    reviews = orm.Set('Review')


class Review(db.Entity):
    id = orm.PrimaryKey(int)
    attempt = orm.Optional(Attempt); slot = orm.Optional(Slot)


class Tag(db.Entity):
    id = orm.PrimaryKey(int)
    attempts = orm.Set(Attempt)


_READY = False
ROWS = [(1, 7, 3), (1, 7, 7), (2, 7, 1)]               # (student, course, number): overlapping values on purpose


def model():
    global _READY
    if not _READY:
        db.bind('sqlite', ':memory:'); db.generate_mapping(create_tables=True)
        with orm.db_session:
            for i in (1, 2, 7): Student(id=i); Course(id=i)
            t = Tag(id=1)
            for k, (s, c, n) in enumerate(ROWS, 1):
                e = Enrollment.get(student=Student[s], course=Course[c]) or Enrollment(student=Student[s], course=Course[c])
                a = Attempt(enrollment=e, number=n, tags=[t]); sl = Slot(number=n, enrollment=e, flag=s)
                Review(id=k, attempt=a, slot=sl)
        _READY = True
    return types.SimpleNamespace(db=db)


WAYS = {
    'key given as objects': lambda s, c, n, k: Attempt[Enrollment[Student[s], Course[c]], n],
    'key given as raw values': lambda s, c, n, k: Attempt[s, c, n],
    'get() with objects': lambda s, c, n, k: Attempt.get(enrollment=Enrollment[s, c], number=n),
    'select()': lambda s, c, n, k: orm.select(a for a in Attempt if a.number == n and a.enrollment.student.id == s and a.enrollment.course.id == c).first(),
    'reference of another object': lambda s, c, n, k: Review[k].attempt,
    'collection of its enrollment': lambda s, c, n, k: [a for a in Enrollment[s, c].attempts if a.number == n][0],
    'link table': lambda s, c, n, k: [a for a in Tag[1].attempts if a.number == n and a.enrollment.student.id == s][0],
    'select_by_sql': lambda s, c, n, k: Attempt.select_by_sql('select * from Attempt where enrollment_student = $s and enrollment_course = $c and number = $n')[0],
    'pickle of a referrer': lambda s, c, n, k: pickle.loads(_PICKLES[k]).attempt,
}
_PICKLES = {}


def configs(tier):
    return [dict(first=a, second=b) for a in WAYS for b in WAYS]


def _reset():
    try: orm.rollback()
    except Exception: pass
    core.local.db2cache.clear(); core.local.db_context_counter = 0; core.local.db_session = None


def case(cfg, values):
    def call():
        model(); bad = []
        if not _PICKLES:
            with orm.db_session:
                for k in (1, 2, 3):
                    r = Review[k]; r.attempt.number; r.slot.flag
                    _PICKLES[k] = pickle.dumps(r)
            _reset()
        for k, (s, c, n) in enumerate(ROWS, 1):
            try:
                with orm.db_session:
                    a1 = WAYS[cfg['first']](s, c, n, k); a2 = WAYS[cfg['second']](s, c, n, k)
                    want = (s, c, n)
                    for name, a in ((cfg['first'], a1), (cfg['second'], a2)):
                        if a is None: bad.append(('%s finds nothing for %r' % (name, want),)); continue
                        got = (a.enrollment.student.id, a.enrollment.course.id, a.number)
                        if got != want or a._pkval_ != (Enrollment[s, c], n): bad.append(('%s hands out an object with key %r for the row %r' % (name, a._pkval_, want),))
                    if a1 is not a2: bad.append(('two objects for the row %r' % (want,), '%s: %r' % (cfg['first'], a1), '%s: %r' % (cfg['second'], a2)))
                    sl = Review[k].slot; sl2 = Slot[n, s, c, s]
                    if sl is not sl2 or sl._pkval_ != (n, Enrollment[s, c], s): bad.append(('Slot reached by reference and by raw key', repr(sl), repr(sl2)))
                    a1.reviews.load(); sl.reviews.load()                # loading through the object must find its row
                    if sorted(r.id for r in a1.reviews) != [k]: bad.append(('reviews of %r' % (a1,), sorted(r.id for r in a1.reviews)))
            except Exception as e:
                bad.append(('row %r: raises %s: %s' % ((s, c, n), type(e).__name__, str(e)[:100]),))
            finally:
                _reset()
        return bad[:4]
    return Case(call, {}, [], lambda r: _reset(), lambda r: _reset())


def spec(cfg, i, path):
    return path.outcome == 'ret' and path.value == []


# ------------------------------------------------------------------ the key of a key, given RAW and not yet in normal form (a str key is stripped by validation)
BOUND_KK = 'Country (str key) <- Capital (key = the country) <- Office / Report (composite key with the capital); 6 ways of naming Capital["FR"] by the raw text " FR ", alone and in pairs'
_KK = None


def kk_model():
    global _KK
    if _KK is None:
        d = orm.Database('sqlite', ':memory:')

        class Country(d.Entity):
            code = orm.PrimaryKey(str)
            capital = orm.Optional('Capital')

        class Capital(d.Entity):
            country = orm.PrimaryKey(Country)
            offices = orm.Set('Office'); reports = orm.Set('Report')

        class Office(d.Entity):
            id = orm.PrimaryKey(int)
            capital = orm.Required(Capital)

        class Report(d.Entity):
            capital = orm.Required(Capital); year = orm.Required(int); orm.PrimaryKey(capital, year)
        d.generate_mapping(create_tables=True)
        with orm.db_session:
            c = Country(code='FR'); cap = Capital(country=c); Office(id=1, capital=cap); Report(capital=cap, year=2020)
        _KK = types.SimpleNamespace(db=d, Country=Country, Capital=Capital, Office=Office, Report=Report)
    return _KK


_NEXT_ID = []
KK_WAYS = {
    'Capital[raw]': lambda M, raw: M.Capital[raw],
    'Capital.get(country=raw)': lambda M, raw: M.Capital.get(country=raw),
    'Office.get(id, capital=raw).capital': lambda M, raw: M.Office.get(id=1, capital=raw).capital,
    'Report.get(capital=raw, year).capital': lambda M, raw: M.Report.get(capital=raw, year=2020).capital,
    'Report[raw, year].capital': lambda M, raw: M.Report[raw, 2020].capital,
    'a new Office(capital=raw).capital': lambda M, raw: M.Office(id=_NEXT_ID.pop(), capital=raw).capital,
}


def kk_configs(tier):
    return [dict(first=a, second=b, raw=r) for a in KK_WAYS for b in KK_WAYS for r in ('FR', ' FR ') if a <= b]


def kk_case(cfg, values):
    def call():
        M = kk_model(); bad = []
        try:
            _NEXT_ID[:] = [10, 9]
            with orm.db_session:
                got = []
                for w in (cfg['first'], cfg['second']):
                    try: got.append(KK_WAYS[w](M, cfg['raw']))
                    except (AttributeError, core.ObjectNotFound) as e: got.append('%s: nothing found (%s)' % (w, type(e).__name__))
                want = M.Capital[M.Country['FR']]
                for w, g in zip((cfg['first'], cfg['second']), got):
                    if g is not want: bad.append(('%s with %r hands out %r, the row is %r' % (w, cfg['raw'], g, want),))
                cache = M.db._get_cache()
                countries = [o for o in cache.objects if isinstance(o, M.Country)]; capitals = [o for o in cache.objects if isinstance(o, M.Capital)]
                if len(countries) != 1 or len(capitals) != 1: bad.append(('objects in the session: %r %r - one country and one capital are stored' % (countries, capitals),))
                orm.rollback()
        except Exception as e:
            bad.append(('raises %s: %s' % (type(e).__name__, str(e)[:120]),))
        finally:
            _reset()
        return bad[:4]
    return Case(call, {}, [], lambda r: _reset(), lambda r: _reset())
